(* History.v — registration histories on one policy (property C07): the catalogs as lists (C18 proves that
   static_list implements exactly this), Policy::dispatch_data as the only state that survives between updates
   in the model (the compiler object is a local of update: everything else is recomputed from the catalogs; the
   v-table pointer vector / hash parameters are the subject of C05_history).  No proofs here. *)
From Y2 Require Import Model.Registry Model.Compile.
Local Open Scope nat_scope.

Inductive hop :=
| HAddClass (r : class_rec)            (* a class registration object is constructed: push_back *)
| HDelClass (i : nat)                  (* ... destroyed: remove (i = position in the live catalog) *)
| HAddMethod (m : meth_rec)
| HDelMethod (i : nat)
| HAddDef (mi : nat) (d : def_rec)
| HDelDef (mi i : nat)
| HUpdate.

Record hstate := mk_hs {
  h_reg : registry;                    (* the live catalogs *)
  h_data : list word;                  (* Policy::dispatch_data *)
  h_inst : option compiled             (* what the last update installed; None after an update error *)
}.

Fixpoint remove_nth {A} (n : nat) (l : list A) : list A :=
  match l, n with
  | [], _ => []
  | _ :: l', 0 => l'
  | x :: l', S n' => x :: remove_nth n' l'
  end.

Definition with_classes (R : registry) (cs : list class_rec) := mk_reg cs (r_methods R) (r_alias R).
Definition with_methods (R : registry) (ms : list meth_rec) := mk_reg (r_classes R) ms (r_alias R).

Definition hstep (s : hstate) (op : hop) : hstate :=
  let R := h_reg s in
  match op with
  | HAddClass r => mk_hs (with_classes R (r_classes R ++ [r])) (h_data s) (h_inst s)
  | HDelClass i => mk_hs (with_classes R (remove_nth i (r_classes R))) (h_data s) (h_inst s)
  | HAddMethod m => mk_hs (with_methods R (r_methods R ++ [m])) (h_data s) (h_inst s)
  | HDelMethod i => mk_hs (with_methods R (remove_nth i (r_methods R))) (h_data s) (h_inst s)
  | HAddDef mi d =>
      mk_hs (with_methods R (upd_nth mi (r_methods R) (mk_meth [] [] [])
                                     (fun m => mk_meth (m_vp m) (m_defs m ++ [d]) (m_shape m)))) (h_data s) (h_inst s)
  | HDelDef mi i =>
      mk_hs (with_methods R (upd_nth mi (r_methods R) (mk_meth [] [] [])
                                     (fun m => mk_meth (m_vp m) (remove_nth i (m_defs m)) (m_shape m)))) (h_data s) (h_inst s)
  | HUpdate =>
      match compile_with (h_data s) R with
      | Ok C => mk_hs R (o_image C) (Some C)
      | Err _ => mk_hs R (h_data s) None
      end
  end.

Definition hinit (alias : list (tid * tid)) : hstate := mk_hs (mk_reg [] [] alias) [] None.
Definition hrun (alias : list (tid * tid)) (ops : list hop) : hstate := fold_left hstep ops (hinit alias).
