(* MiniMeth.v — the little language into which translators/augmeth.py translates, on every run,
       compiler<Policy>::augment_methods()                                                   (detail/compiler.hpp)
   and its interpreter.  For every method, in catalog order: the classes of its virtual parameters are looked up by type id
   (an id no registered class has is reported as unknown_class_error and update aborts), then those of every definition, in
   catalog order; the two pseudo-definitions get the indexes nspecs and nspecs + 1; finally every (method, parameter) is
   appended to the used_by_vp list of the parameter's class.  Statements that only copy pointers or sizes (info, pf, reserve,
   resize) carry no decision and are dropped by the translator from an explicit list.  Proofs/MethSource.v proves that the
   translation computes Model.Compile.augment_methods and used_by_vp.  No proofs in this file. *)
From Coq Require Import List NArith Bool Arith.
From Y2 Require Import Model.Registry Model.Compile.
Import ListNotations.

Inductive mwho := WMethod | WDefinition.        (* whose virtual parameters a loop walks / whose vp vector a push extends *)
Inductive mdummy := DAmbiguous | DNotImplemented.
Inductive mexp := MSpecSize (* meth_info.specs.size() *) | MSpecSizePlus (n : nat).

Inductive mstmt :=
| MSkip
| MSeq (a b : mstmt)
| MForParams (w : mwho) (body : mstmt)      (* for (auto ti : range{X.vp_begin, X.vp_end}) *)
| MLookup                                   (* auto class_ = class_map[Policy::type_index(ti)]; *)
| MIfUnknown (body : mstmt)                 (* if (!class_) *)
| MReportUnknownAndAbort                    (* unknown_class_error error; error.type = ti; [Policy::error(error);] abort(); *)
| MPushVp (w : mwho)                        (* X->vp.push_back(class_); *)
| MSetDummyIndex (d : mdummy) (e : mexp)    (* meth_iter->ambiguous.spec_index = e;  /  not_implemented *)
| MSetSpecIndexByPosition                   (* spec_iter->spec_index = spec_iter - meth_iter->specs.begin(); *)
| MForDefinitions (body : mstmt).           (* for (auto& definition_info : meth_info.specs) { ...; ++spec_iter; } *)

(* the function: the body run for every method (meth_iter advancing with the loop), and how used_by_vp is filled *)
Inductive musedby := UAppendInMethodAndParameterOrder.   (* for method in methods: i = 0; for vp in method.vp: vp->used_by_vp.push_back({&method, i++}) *)
Record meth_src := mk_meth_src { ms_body : mstmt; ms_used_by : musedby }.

(* what is being built for the method at hand *)
Record mstate := mk_ms {
  b_vp : list nat;                 (* meth_iter->vp *)
  b_specs : list (list nat);       (* vp of the definitions completed so far, in order *)
  b_cur : list nat;                (* vp of the definition at hand *)
  b_class : option (option nat);   (* class_: Some None = looked up and null *)
  b_amb : option nat;              (* ambiguous.spec_index *)
  b_ni : option nat;               (* not_implemented.spec_index *)
  b_spec_positions : list nat      (* spec_index of each completed definition *)
}.

Inductive mres := MGo (s : mstate) | MErr (e : error) | MFault.

Section Interp.
  Variables (R : registry) (keys : list N).

  Record mctx := mk_mctx { x_meth : meth_rec; x_def : option def_rec; x_ti : option tid; x_pos : nat }.

  Section Loop.
    Context {A : Type}.
    Variable step : A -> mstate -> mres.
    Fixpoint mfor (xs : list A) (s : mstate) : mres :=
      match xs with [] => MGo s | a :: r => match step a s with MGo s' => mfor r s' | other => other end end.
  End Loop.

  Fixpoint mfor_pos {A} (step : nat -> A -> mstate -> mres) (pos : nat) (xs : list A) (s : mstate) : mres :=
    match xs with [] => MGo s | a :: r => match step pos a s with MGo s' => mfor_pos step (S pos) r s' | other => other end end.

  Fixpoint mexec (c : mstmt) (x : mctx) (s : mstate) : mres :=
    match c with
    | MSkip => MGo s
    | MSeq a b => match mexec a x s with MGo s' => mexec b x s' | other => other end
    | MForParams w body =>
        let ids := match w with
                   | WMethod => Some (m_vp (x_meth x))
                   | WDefinition => match x_def x with Some d => Some (d_vp d) | None => None end
                   end in
        match ids with
        | Some l => mfor (fun t s' => match mexec body (mk_mctx (x_meth x) (x_def x) (Some t) (x_pos x)) s' with
                                      | MGo s2 =>      (* class_ is a local of the loop body *)
                                          MGo (mk_ms (b_vp s2) (b_specs s2) (b_cur s2) (b_class s') (b_amb s2) (b_ni s2) (b_spec_positions s2))
                                      | other => other
                                      end) l s
        | None => MFault
        end
    | MLookup => match x_ti x with
                 | Some t => MGo (mk_ms (b_vp s) (b_specs s) (b_cur s) (Some (class_of R keys t)) (b_amb s) (b_ni s) (b_spec_positions s))
                 | None => MFault
                 end
    | MIfUnknown body => match b_class s with
                         | Some None => mexec body x s
                         | Some (Some _) => MGo s
                         | None => MFault
                         end
    | MReportUnknownAndAbort => match x_ti x with Some t => MErr (UnknownClass t) | None => MFault end
    | MPushVp w => match b_class s with
                   | Some (Some c0) =>
                       match w with
                       | WMethod => MGo (mk_ms (b_vp s ++ [c0]) (b_specs s) (b_cur s) (b_class s) (b_amb s) (b_ni s) (b_spec_positions s))
                       | WDefinition => MGo (mk_ms (b_vp s) (b_specs s) (b_cur s ++ [c0]) (b_class s) (b_amb s) (b_ni s) (b_spec_positions s))
                       end
                   | _ => MFault          (* a null class pushed: the error branch fell through *)
                   end
    | MSetDummyIndex d e =>
        let n := length (m_defs (x_meth x)) in
        let v := match e with MSpecSize => n | MSpecSizePlus k => n + k end in
        match d with
        | DAmbiguous => MGo (mk_ms (b_vp s) (b_specs s) (b_cur s) (b_class s) (Some v) (b_ni s) (b_spec_positions s))
        | DNotImplemented => MGo (mk_ms (b_vp s) (b_specs s) (b_cur s) (b_class s) (b_amb s) (Some v) (b_spec_positions s))
        end
    | MSetSpecIndexByPosition =>
        match x_def x with
        | Some _ => MGo (mk_ms (b_vp s) (b_specs s) (b_cur s) (b_class s) (b_amb s) (b_ni s) (b_spec_positions s ++ [x_pos x]))
        | None => MFault
        end
    | MForDefinitions body =>
        mfor_pos (fun pos d s' =>
                    match mexec body (mk_mctx (x_meth x) (Some d) None pos)
                                (mk_ms (b_vp s') (b_specs s') [] (b_class s') (b_amb s') (b_ni s') (b_spec_positions s')) with
                    | MGo s2 => MGo (mk_ms (b_vp s2) (b_specs s2 ++ [b_cur s2]) [] (b_class s2) (b_amb s2) (b_ni s2) (b_spec_positions s2))
                    | other => other
                    end)
                 0 (m_defs (x_meth x)) s
    end.

  Definition ms0 : mstate := mk_ms [] [] [] None None None [].

  (* every method of the catalog, in order; the first error aborts the update *)
  Fixpoint run_methods (body : mstmt) (ms : list meth_rec) : result (list (cmeth * (option nat * option nat * list nat))) :=
    match ms with
    | [] => Ok []
    | m :: rest =>
        match mexec body (mk_mctx m None None 0) ms0 with
        | MGo s => match run_methods body rest with
                   | Ok l => Ok ((mk_cmeth (b_vp s) (b_specs s) (map d_has_next (m_defs m)) (m_shape m), (b_amb s, b_ni s, b_spec_positions s)) :: l)
                   | Err e => Err e
                   end
        | MErr e => Err e
        | MFault => Err OutOfFuel
        end
    end.
End Interp.

(* used_by_vp as the last loop builds it: for every class, the (method, parameter) pairs in method then parameter order *)
Definition run_used_by (u : musedby) (ms : list cmeth) (c : nat) : list (nat * nat) :=
  match u with
  | UAppendInMethodAndParameterOrder =>
      flat_map (fun '(mi, m) => flat_map (fun '(pi, v) => if Nat.eqb v c then [(mi, pi)] else []) (combine (seq 0 (length (cm_vp m))) (cm_vp m)))
               (combine (seq 0 (length ms)) ms)
  end.
