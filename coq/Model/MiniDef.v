(* MiniDef.v — the little language into which translators/deferred.py translates, on every run,
       compiler<Policy>::resolve_static_type_ids()                       (detail/compiler.hpp; deferred_static_rtti)
   with its two lambdas (`resolve`: call the function a cell points to and store the id it returns; `resolve_list`: resolve a
   shared id list once, guarded by the flag cell that follows it), and its interpreter over the store of Model/Deferred.v.
   Proofs/DefSource.v proves that running the translation is Model.Deferred.resolve_static_type_ids.  No proofs here. *)
From Coq Require Import List NArith Bool.
From Y2 Require Import Model.Registry Model.Deferred.
Import ListNotations.

(* which id list a call of resolve_list is about *)
Inductive flist := FBasesOfClass (* ci.first_base, ci.last_base *) | FVpOfMethod (* method.vp_begin, vp_end *) | FVpOfDefinition (* definition.vp_begin, vp_end *).

(* the body of the lambda resolve_list(first, last) *)
Inductive lbody :=
| BSkip
| BSeq (a b : lbody)
| BIfPending (body : lbody)      (* if (first != last && *last == 0) *)
| BForIdsResolve                 (* for (auto& ti : range{first, last}) resolve(&ti); *)
| BSetFlag.                      (* *last = 1; *)

Inductive fstmt_ :=
| FSkip
| FSeq (a b : fstmt_)
| FIfTypeUnresolved (body : fstmt_)   (* if (!ci.is_type_resolved) *)
| FResolveType                        (* resolve(&ci.type); *)
| FSetTypeResolved                    (* ci.is_type_resolved = true; *)
| FResolveList (l : flist)            (* resolve_list(...); *)
| FForClasses (body : fstmt_)         (* for (auto& ci : Policy::classes) *)
| FForMethods (body : fstmt_)         (* for (auto& method : Policy::methods) *)
| FForDefinitions (body : fstmt_).    (* for (auto& definition : method.specs) *)

(* the function: `resolve` must be "call what the cell points to, store what it returns"; the body of resolve_list; the body
   under `if constexpr (std::is_base_of_v<policy::deferred_static_rtti, Policy>)` *)
Record def_src := mk_def_src { ds_resolve_is_call_and_store : bool; ds_resolve_list : lbody; ds_body : fstmt_ }.

Section Interp.
  Variable idf : N -> N.

  (* the lambda resolve_list on array i of the store; `entered`: inside the guard *)
  Fixpoint lexec_ (b : lbody) (s : dstore) (i : nat) : dres dstore :=
    match b with
    | BSkip => DOk s
    | BSeq p q => dbind (lexec_ p s i) (fun s' => lexec_ q s' i)
    | BIfPending body =>
        match nth_error (d_arrays s) i with
        | None => DOk s                                 (* a registration without that list *)
        | Some a => match a_cells a with
                    | [] => DOk s
                    | _ => if a_flag a then DOk s else lexec_ body s i
                    end
        end
    | BForIdsResolve =>
        match nth_error (d_arrays s) i with
        | None => DOk s
        | Some a => match resolve_cells idf (a_cells a) with
                    | DOk cs => DOk (mk_ds (set_nth i (d_arrays s) (mk_arr cs (a_flag a))) (d_types s))
                    | DCrash => DCrash
                    end
        end
    | BSetFlag =>
        match nth_error (d_arrays s) i with
        | None => DOk s
        | Some a => DOk (mk_ds (set_nth i (d_arrays s) (mk_arr (a_cells a) true)) (d_types s))
        end
    end.

  Record fctx := mk_fctx { x_class : option dclass; x_method : option dmeth; x_def : option nat }.

  Section Loops.
    Context {A : Type}.
    Variable step : A -> dstore -> dres dstore.
    Fixpoint ffor (xs : list A) (s : dstore) : dres dstore :=
      match xs with [] => DOk s | a :: r => dbind (step a s) (ffor r) end.
  End Loops.

  Variable k : dcatalog.
  Variable src : def_src.

  Fixpoint fexec (c : fstmt_) (x : fctx) (s : dstore) : dres dstore :=
    match c with
    | FSkip => DOk s
    | FSeq p q => dbind (fexec p x s) (fexec q x)
    | FIfTypeUnresolved body =>
        match x_class x with
        | Some ci => match nth_error (d_types s) (dc_type ci) with
                     | None => DOk s
                     | Some (_, true) => DOk s
                     | Some (_, false) => fexec body x s
                     end
        | None => DCrash
        end
    | FResolveType =>
        match x_class x with
        | Some ci => match nth_error (d_types s) (dc_type ci) with
                     | None => DOk s
                     | Some (c0, fl) => match resolve_cell idf c0 with
                                        | DOk c' => DOk (mk_ds (d_arrays s) (set_nth (dc_type ci) (d_types s) (c', fl)))
                                        | DCrash => DCrash
                                        end
                     end
        | None => DCrash
        end
    | FSetTypeResolved =>
        match x_class x with
        | Some ci => match nth_error (d_types s) (dc_type ci) with
                     | None => DOk s
                     | Some (c0, _) => DOk (mk_ds (d_arrays s) (set_nth (dc_type ci) (d_types s) (c0, true)))
                     end
        | None => DCrash
        end
    | FResolveList l =>
        let target := match l with
                      | FBasesOfClass => match x_class x with Some ci => Some (dc_bases ci) | None => None end
                      | FVpOfMethod => match x_method x with Some m => Some (dm_vp m) | None => None end
                      | FVpOfDefinition => x_def x
                      end in
        match target with
        | Some i => if ds_resolve_is_call_and_store src then lexec_ (ds_resolve_list src) s i else DCrash
        | None => DCrash
        end
    | FForClasses body => ffor (fun ci s' => fexec body (mk_fctx (Some ci) (x_method x) (x_def x)) s') (dk_classes k) s
    | FForMethods body => ffor (fun m s' => fexec body (mk_fctx (x_class x) (Some m) (x_def x)) s') (dk_methods k) s
    | FForDefinitions body =>
        match x_method x with
        | Some m => ffor (fun d s' => fexec body (mk_fctx (x_class x) (x_method x) (Some d)) s') (dm_defs m) s
        | None => DCrash
        end
    end.

  Definition run_resolve (s : dstore) : dres dstore := fexec (ds_body src) (mk_fctx None None None) s.
End Interp.
