(* MiniLat.v — the little language into which translators/lattice.py translates, on every run, the loops of
       compiler<Policy>::augment_classes()                                                   (detail/compiler.hpp)
   and its interpreters, one per stage of that function (each keeps only the part of the compiler's state its stage reads
   or writes; a statement a stage has no business executing is a fault):

     collect  : one class_ per distinct type_index, in order of first appearance; the ids of every record of the class
     bases    : the listed bases of every record, looked up by id (an id no class has -> unknown_class_error, abort);
                the class itself dropped
     closure  : `for (bool changed = true; changed;) { changed = false; ... }` - bases of bases until nothing is learnt
     dedup    : duplicates removed with a fresh mark per class; weight = number of proper bases
     direct   : sort by decreasing weight; the unmarked bases, each marking its own bases, are the direct ones
     derived  : every class is appended to direct_derived of each of its direct bases

   Classes are identified by their index in the compiler's `classes` deque, pointers to them by that index.
   Proofs/LatSource.v proves that the translation computes the stages of Model.Compile.augment_classes.  No proofs here. *)
From Coq Require Import List NArith Bool Arith.
From Y2 Require Import Model.Registry Model.Compile.
Import ListNotations.
Local Open Scope nat_scope.

Inductive lref := RRtc | RRtb | RRtbb.               (* the three class pointers / references the loops use *)
Inductive llist :=
| LTb (r : lref)                                      (* r->transitive_bases *)
| LSnap                                               (* the local copy `bases` *)
| LDir (r : lref).                                    (* r->direct_bases *)

Inductive lcond :=
| KAnd (a b : lcond)                                  (* a && b *)
| KNe (a b : lref)                                    (* a != b, as pointers *)
| KNull (r : lref)                                    (* r == nullptr, !r *)
| KNotInTb (owner x : lref)                           (* std::find(owner.tb.begin(), owner.tb.end(), x) == owner.tb.end() *)
| KIdAbsent                                           (* std::find(rtc->type_ids..., cr.type) == rtc->type_ids.end() *)
| KMarkNe (r : lref)                                  (* r->mark != mark *)
| KMarkEq (r : lref).                                 (* r->mark == mark *)

Inductive lstmt :=
| LSkip
| LSeq (a b : lstmt)
| LIf (c : lcond) (body : lstmt)
| LForCatalog (body : lstmt)                          (* for (auto& cr : Policy::classes) *)
| LLookupRecord (r : lref)                            (* auto& r = class_map[Policy::type_index(cr.type)] *)
| LLookupBase (r : lref)                              (* auto r = class_map[Policy::type_index( *base_iter)] *)
| LEmplace                                            (* rtc = &classes.emplace_back()   (rtc refers to the map's slot) *)
| LSetAbstract                                        (* rtc->is_abstract = cr.is_abstract *)
| LPushId                                             (* rtc->type_ids.push_back(cr.type) *)
| LForRecordBases (body : lstmt)                      (* for (base_iter = cr.first_base; base_iter != cr.last_base; ++base_iter) *)
| LReportUnknownAbort                                 (* unknown_class_error error; error.type = *base_iter; [Policy::error]; abort() *)
| LPushTb (owner x : lref)                            (* owner.transitive_bases.push_back(x) *)
| LSetChanged                                         (* changed = true *)
| LForClasses (body : lstmt)                          (* for (auto& rtc : classes) *)
| LSnapshot                                           (* const auto bases = rtc.transitive_bases *)
| LFor (r : lref) (l : llist) (body : lstmt)          (* for (auto r : l) *)
| LNewMark                                            (* mark = ++class_mark *)
| LClearLocal                                         (* decltype(rtc.transitive_bases) bases; *)
| LPushLocal (x : lref)                               (* bases.push_back(x) *)
| LSetMark (r : lref)                                 (* r->mark = mark *)
| LSetWeightLocal                                     (* rtc.weight = bases.size() *)
| LSwapTbLocal                                        (* rtc.transitive_bases.swap(bases) *)
| LSetWeightTb                                        (* rtc.weight = rtc.transitive_bases.size() *)
| LSortTbByWeight                                     (* std::sort(rtc.tb.begin(), rtc.tb.end(), [](a, b) { return a->weight > b->weight; }) *)
| LPushDir (owner x : lref)                           (* owner.direct_bases.push_back(x) *)
| LPushDer (owner x : lref).                          (* owner->direct_derived.push_back(x) *)

(* the pointer locals *)
Record lenv := mk_env { e_rtc : option nat; e_rtb : option nat; e_rtbb : option nat }.
Definition env0 : lenv := mk_env None None None.
Definition eget (r : lref) (x : lenv) : option nat :=
  match r with RRtc => e_rtc x | RRtb => e_rtb x | RRtbb => e_rtbb x end.
Definition eset (r : lref) (v : option nat) (x : lenv) : lenv :=
  match r with
  | RRtc => mk_env v (e_rtb x) (e_rtbb x)
  | RRtb => mk_env (e_rtc x) v (e_rtbb x)
  | RRtbb => mk_env (e_rtc x) (e_rtb x) v
  end.

Section Loop.
  Context {A S : Type}.
  Variable step : A -> S -> option S.
  Fixpoint ofor (xs : list A) (s : S) : option S :=
    match xs with [] => Some s | a :: r => match step a s with Some s' => ofor r s' | None => None end end.
End Loop.

(* ------------------------------------------------------------------ closure *)

Record cl_st := mk_cl { q_tb : list (list nat); q_changed : bool; q_snap : list nat }.

Fixpoint cl_cond (c : lcond) (x : lenv) (s : cl_st) : option bool :=
  match c with
  | KAnd a b => match cl_cond a x s with
                | Some true => cl_cond b x s
                | other => other
                end
  | KNe a b => match eget a x, eget b x with Some i, Some j => Some (negb (Nat.eqb i j)) | _, _ => None end
  | KNotInTb o y => match eget o x, eget y x with
                    | Some i, Some j => Some (negb (memn j (nth i (q_tb s) [])))
                    | _, _ => None
                    end
  | _ => None
  end.

Fixpoint cl_exec (c : lstmt) (x : lenv) (s : cl_st) : option cl_st :=
  match c with
  | LSkip => Some s
  | LSeq a b => match cl_exec a x s with Some s' => cl_exec b x s' | None => None end
  | LIf k body => match cl_cond k x s with
                  | Some true => cl_exec body x s
                  | Some false => Some s
                  | None => None
                  end
  | LForClasses body =>
      ofor (fun i s' => cl_exec body (eset RRtc (Some i) x) s') (seq 0 (length (q_tb s))) s
  | LSnapshot => match eget RRtc x with
                 | Some i => Some (mk_cl (q_tb s) (q_changed s) (nth i (q_tb s) []))
                 | None => None
                 end
  | LFor r LSnap body => ofor (fun i s' => cl_exec body (eset r (Some i) x) s') (q_snap s) s
  | LFor r (LTb o) body =>
      match eget o x with                              (* the list as it is when the loop starts *)
      | Some k => ofor (fun i s' => cl_exec body (eset r (Some i) x) s') (nth k (q_tb s) []) s
      | None => None
      end
  | LPushTb o y => match eget o x, eget y x with
                   | Some i, Some j => Some (mk_cl (upd_nth i (q_tb s) [] (fun l => l ++ [j])) (q_changed s) (q_snap s))
                   | _, _ => None
                   end
  | LSetChanged => Some (mk_cl (q_tb s) true (q_snap s))
  | _ => None
  end.

(* for (bool changed = true; changed;) { changed = false; body }; the fuel is the model's *)
Fixpoint run_closure (fuel : nat) (body : lstmt) (tb : list (list nat)) : result (list (list nat)) :=
  match fuel with
  | 0 => Err OutOfFuel
  | S f => match cl_exec body env0 (mk_cl tb false []) with
           | Some s => if q_changed s then run_closure f body (q_tb s) else Ok (q_tb s)
           | None => Err (BadRead 0)                   (* a fault of the interpreter: never OutOfFuel *)
           end
  end.

(* ------------------------------------------------------------------ collect / bases: pointers that may be null *)

Inductive pv := PUnset | PNull | PCls (c : nat).
Record penv := mk_penv { p_rtc : pv; p_rtb : pv; p_rtbb : pv }.
Definition penv0 : penv := mk_penv PUnset PUnset PUnset.
Definition pget (r : lref) (x : penv) : pv := match r with RRtc => p_rtc x | RRtb => p_rtb x | RRtbb => p_rtbb x end.
Definition pset (r : lref) (v : pv) (x : penv) : penv :=
  match r with
  | RRtc => mk_penv v (p_rtb x) (p_rtbb x)
  | RRtb => mk_penv (p_rtc x) v (p_rtbb x)
  | RRtbb => mk_penv (p_rtc x) (p_rtb x) v
  end.
Definition pv_of (o : option nat) : pv := match o with Some c => PCls c | None => PNull end.

(* comparisons of pointers that have been given a value *)
Definition pv_ne (a b : pv) : option bool :=
  match a, b with
  | PUnset, _ | _, PUnset => None
  | PNull, PNull => Some false
  | PCls i, PCls j => Some (negb (Nat.eqb i j))
  | _, _ => Some true
  end.
Definition pv_null (a : pv) : option bool :=
  match a with PUnset => None | PNull => Some true | PCls _ => Some false end.

(* ------------------------------------------------------------------ bases *)

Record bs_st := mk_bs { v_env : penv; v_tb : list (list nat) }.
Inductive bres := BGo (s : bs_st) | BErr (e : error) | BFault.

Section Bases.
  Variable look : tid -> option nat.                   (* class_map[Policy::type_index(id)], as the collect stage left it *)

  Fixpoint bs_cond (k : lcond) (x : penv) : option bool :=
    match k with
    | KAnd a b => match bs_cond a x with Some true => bs_cond b x | other => other end
    | KNe a b => pv_ne (pget a x) (pget b x)
    | KNull r => pv_null (pget r x)
    | _ => None
    end.

  Section BLoop.
    Context {A : Type}.
    Variable step : A -> bs_st -> bres.
    Fixpoint bfor (xs : list A) (s : bs_st) : bres :=
      match xs with [] => BGo s | a :: r => match step a s with BGo s' => bfor r s' | other => other end end.
  End BLoop.

  Fixpoint bs_exec (c : lstmt) (cr : class_rec) (ti : option tid) (s : bs_st) : bres :=
    match c with
    | LSkip => BGo s
    | LSeq a b => match bs_exec a cr ti s with BGo s' => bs_exec b cr ti s' | other => other end
    | LIf k body => match bs_cond k (v_env s) with
                    | Some true => bs_exec body cr ti s
                    | Some false => BGo s
                    | None => BFault
                    end
    | LLookupRecord r => BGo (mk_bs (pset r (pv_of (look (c_tid cr))) (v_env s)) (v_tb s))
    | LLookupBase r => match ti with
                       | Some t => BGo (mk_bs (pset r (pv_of (look t)) (v_env s)) (v_tb s))
                       | None => BFault
                       end
    | LForRecordBases body =>                          (* the locals declared in the body die with every iteration *)
        bfor (fun t s' => match bs_exec body cr (Some t) s' with
                          | BGo s2 => BGo (mk_bs (v_env s') (v_tb s2))
                          | other => other
                          end) (c_bases cr) s
    | LReportUnknownAbort => match ti with Some t => BErr (UnknownClass t) | None => BFault end
    | LPushTb o y => match pget o (v_env s), pget y (v_env s) with
                     | PCls i, PCls j => BGo (mk_bs (v_env s) (upd_nth i (v_tb s) [] (fun l => l ++ [j])))
                     | _, _ => BFault                   (* a null or unset pointer dereferenced or stored *)
                     end
    | _ => BFault
    end.

  (* for (auto& cr : Policy::classes) body *)
  Fixpoint run_bases (body : lstmt) (recs : list class_rec) (tb : list (list nat)) : result (list (list nat)) :=
    match recs with
    | [] => Ok tb
    | cr :: rest => match bs_exec body cr None (mk_bs penv0 tb) with
                    | BGo s => run_bases body rest (v_tb s)
                    | BErr e => Err e
                    | BFault => Err (BadRead 0)
                    end
    end.
End Bases.

(* ------------------------------------------------------------------ collect *)

Record co_st := mk_co { o_env : penv; o_map : list (N * nat); o_infos : list cls }.
Definition cls0 : cls := mk_cls [] false.            (* a class_ as emplace_back() makes it *)

Section Collect.
  Variable key : tid -> N.                            (* Policy::type_index *)

  Definition co_cond (k : lcond) (cr : class_rec) (s : co_st) : option bool :=
    match k with
    | KNull r => pv_null (pget r (o_env s))
    | KIdAbsent => match p_rtc (o_env s) with
                   | PCls i => if Nat.ltb i (length (o_infos s))
                               then Some (negb (memN (c_tid cr) (k_tids (nth i (o_infos s) cls0))))
                               else None
                   | _ => None
                   end
    | _ => None
    end.

  Fixpoint co_exec (c : lstmt) (cr : class_rec) (s : co_st) : option co_st :=
    match c with
    | LSkip => Some s
    | LSeq a b => match co_exec a cr s with Some s' => co_exec b cr s' | None => None end
    | LIf k body => match co_cond k cr s with
                    | Some true => co_exec body cr s
                    | Some false => Some s
                    | None => None
                    end
    | LLookupRecord RRtc =>                           (* auto& rtc = class_map[key]: a reference to the slot of the record's key *)
        Some (mk_co (pset RRtc (pv_of (assocN (key (c_tid cr)) (o_map s))) (o_env s)) (o_map s) (o_infos s))
    | LEmplace =>                                      (* rtc = &classes.emplace_back(): the slot now points to the new class *)
        match p_rtc (o_env s) with
        | PUnset => None
        | _ => Some (mk_co (pset RRtc (PCls (length (o_infos s))) (o_env s))
                           ((key (c_tid cr), length (o_infos s)) :: o_map s)
                           (o_infos s ++ [cls0]))
        end
    | LSetAbstract => match p_rtc (o_env s) with
                      | PCls i => if Nat.ltb i (length (o_infos s))
                                  then Some (mk_co (o_env s) (o_map s)
                                                   (upd_nth i (o_infos s) cls0 (fun k => mk_cls (k_tids k) (c_abstract cr))))
                                  else None
                      | _ => None
                      end
    | LPushId => match p_rtc (o_env s) with
                 | PCls i => if Nat.ltb i (length (o_infos s))
                             then Some (mk_co (o_env s) (o_map s)
                                              (upd_nth i (o_infos s) cls0 (fun k => mk_cls (k_tids k ++ [c_tid cr]) (k_abstract k))))
                             else None
                 | _ => None
                 end
    | _ => None
    end.

  (* for (auto& cr : Policy::classes) body; the locals of the body die with every iteration *)
  Fixpoint run_collect (body : lstmt) (recs : list class_rec) (m : list (N * nat)) (infos : list cls) : option (list (N * nat) * list cls) :=
    match recs with
    | [] => Some (m, infos)
    | cr :: rest => match co_exec body cr (mk_co penv0 m infos) with
                    | Some s => run_collect body rest (o_map s) (o_infos s)
                    | None => None
                    end
    end.
End Collect.

(* ------------------------------------------------------------------ dedup (marks), direct (sort + marks), derived *)

Record mk_st := mk_mk {
  m_tb : list (list nat);           (* transitive_bases *)
  m_dir : list (list nat);          (* direct_bases *)
  m_der : list (list nat);          (* direct_derived *)
  m_marks : list nat;               (* class_::mark *)
  m_weight : list nat;              (* class_::weight *)
  m_cmark : nat;                    (* compiler::class_mark *)
  m_mark : nat;                     (* the local `mark` *)
  m_local : list nat                (* the local vector `bases` *)
}.

Definition mk_cond (k : lcond) (x : lenv) (s : mk_st) : option bool :=
  match k with
  | KMarkNe r => match eget r x with Some i => Some (negb (Nat.eqb (nth i (m_marks s) 0) (m_mark s))) | None => None end
  | KMarkEq r => match eget r x with Some i => Some (Nat.eqb (nth i (m_marks s) 0) (m_mark s)) | None => None end
  | _ => None
  end.

Definition weight_of (s : mk_st) (c : nat) : nat := nth c (m_weight s) 0.

Fixpoint mk_exec (c : lstmt) (x : lenv) (s : mk_st) : option mk_st :=
  match c with
  | LSkip => Some s
  | LSeq a b => match mk_exec a x s with Some s' => mk_exec b x s' | None => None end
  | LIf k body => match mk_cond k x s with
                  | Some true => mk_exec body x s
                  | Some false => Some s
                  | None => None
                  end
  | LForClasses body => ofor (fun i s' => mk_exec body (eset RRtc (Some i) x) s') (seq 0 (length (m_tb s))) s
  | LFor r (LTb o) body =>
      match eget o x with                              (* the list as it is when the loop starts *)
      | Some k => ofor (fun i s' => mk_exec body (eset r (Some i) x) s') (nth k (m_tb s) []) s
      | None => None
      end
  | LFor r (LDir o) body =>
      match eget o x with
      | Some k => ofor (fun i s' => mk_exec body (eset r (Some i) x) s') (nth k (m_dir s) []) s
      | None => None
      end
  | LNewMark => Some (mk_mk (m_tb s) (m_dir s) (m_der s) (m_marks s) (m_weight s) (S (m_cmark s)) (S (m_cmark s)) (m_local s))
  | LClearLocal => Some (mk_mk (m_tb s) (m_dir s) (m_der s) (m_marks s) (m_weight s) (m_cmark s) (m_mark s) [])
  | LPushLocal y => match eget y x with
                    | Some j => Some (mk_mk (m_tb s) (m_dir s) (m_der s) (m_marks s) (m_weight s) (m_cmark s) (m_mark s) (m_local s ++ [j]))
                    | None => None
                    end
  | LSetMark r => match eget r x with
                  | Some i => if Nat.ltb i (length (m_marks s))
                              then Some (mk_mk (m_tb s) (m_dir s) (m_der s) (set_nth i (m_marks s) (m_mark s)) (m_weight s) (m_cmark s) (m_mark s) (m_local s))
                              else None               (* a pointer to no class *)
                  | None => None
                  end
  | LSetWeightLocal => match eget RRtc x with
                       | Some i => Some (mk_mk (m_tb s) (m_dir s) (m_der s) (m_marks s) (set_nth i (m_weight s) (length (m_local s))) (m_cmark s) (m_mark s) (m_local s))
                       | None => None
                       end
  | LSetWeightTb => match eget RRtc x with
                    | Some i => Some (mk_mk (m_tb s) (m_dir s) (m_der s) (m_marks s) (set_nth i (m_weight s) (length (nth i (m_tb s) []))) (m_cmark s) (m_mark s) (m_local s))
                    | None => None
                    end
  | LSwapTbLocal => match eget RRtc x with
                    | Some i => Some (mk_mk (set_nth i (m_tb s) (m_local s)) (m_dir s) (m_der s) (m_marks s) (m_weight s) (m_cmark s) (m_mark s) (nth i (m_tb s) []))
                    | None => None
                    end
  | LSortTbByWeight => match eget RRtc x with          (* std::sort by decreasing weight, as Model.Compile sorts *)
                       | Some i => Some (mk_mk (set_nth i (m_tb s) (sort_by_weight (weight_of s) (nth i (m_tb s) []))) (m_dir s) (m_der s) (m_marks s) (m_weight s) (m_cmark s) (m_mark s) (m_local s))
                       | None => None
                       end
  | LPushDir o y => match eget o x, eget y x with
                    | Some i, Some j => Some (mk_mk (m_tb s) (upd_nth i (m_dir s) [] (fun l => l ++ [j])) (m_der s) (m_marks s) (m_weight s) (m_cmark s) (m_mark s) (m_local s))
                    | _, _ => None
                    end
  | LPushDer o y => match eget o x, eget y x with
                    | Some i, Some j => Some (mk_mk (m_tb s) (m_dir s) (upd_nth i (m_der s) [] (fun l => l ++ [j])) (m_marks s) (m_weight s) (m_cmark s) (m_mark s) (m_local s))
                    | _, _ => None
                    end
  | _ => None
  end.

(* ------------------------------------------------------------------ calculate_covariant_classes *)

Inductive cvstmt :=
| VSkip
| VSeq (a b : cvstmt)
| VReturnIfDone                     (* if (!cls.covariant_classes.empty()) return; *)
| VInsertSelf                       (* cls.covariant_classes.insert(&cls) *)
| VForDerived (body : cvstmt)       (* for (auto derived : cls.direct_derived) *)
| VIfDerivedFresh (body : cvstmt)   (* if (derived->covariant_classes.empty()) *)
| VRecurse                          (* calculate_covariant_classes( *derived) *)
| VCopyDerived.                     (* every element of derived->covariant_classes inserted into cls.covariant_classes *)

Inductive cvres := VGo (cov : list (list nat)) | VRet (cov : list (list nat)) | VFault.

(* the sets are kept as strictly increasing lists, as Model.Compile keeps them (the real ones are unordered_sets) *)
Definition set_add_all (src dst : list nat) : list nat := fold_left (fun a y => insert_sorted y a) src dst.

Section Cov.
  Variable derived : list (list nat).
  Variable rec : nat -> list (list nat) -> option (list (list nat)).     (* the function itself, one level down *)

  Section VLoop.
    Variable step : nat -> list (list nat) -> cvres.
    Fixpoint vfor (xs : list nat) (cov : list (list nat)) : cvres :=
      match xs with [] => VGo cov | a :: r => match step a cov with VGo cov' => vfor r cov' | other => other end end.
  End VLoop.

  Fixpoint cv_exec (s : cvstmt) (c : nat) (d : option nat) (cov : list (list nat)) : cvres :=
    match s with
    | VSkip => VGo cov
    | VSeq a b => match cv_exec a c d cov with VGo cov' => cv_exec b c d cov' | other => other end
    | VReturnIfDone => match nth c cov [] with [] => VGo cov | _ :: _ => VRet cov end
    | VInsertSelf => if Nat.ltb c (length cov) then VGo (set_nth c cov (insert_sorted c (nth c cov []))) else VFault
    | VForDerived body => vfor (fun x cov' => cv_exec body c (Some x) cov') (nth c derived []) cov
    | VIfDerivedFresh body => match d with
                              | Some x => match nth x cov [] with [] => cv_exec body c d cov | _ :: _ => VGo cov end
                              | None => VFault
                              end
    | VRecurse => match d with
                  | Some x => match rec x cov with Some cov' => VGo cov' | None => VFault end
                  | None => VFault
                  end
    | VCopyDerived => match d with
                      | Some x => if Nat.ltb c (length cov) then VGo (set_nth c cov (set_add_all (nth x cov []) (nth c cov []))) else VFault
                      | None => VFault
                      end
    end.
End Cov.

(* the recursion, on explicit fuel (the depth of the calls) *)
Fixpoint cv_fun (fuel : nat) (body : cvstmt) (derived : list (list nat)) (c : nat) (cov : list (list nat)) : option (list (list nat)) :=
  match fuel with
  | 0 => None
  | S f => match cv_exec derived (cv_fun f body derived) body c None cov with
           | VGo cov' | VRet cov' => Some cov'
           | VFault => None
           end
  end.

(* for (auto& rtc : classes) calculate_covariant_classes(rtc); *)
Fixpoint cv_all (fuel : nat) (body : cvstmt) (derived : list (list nat)) (cs : list nat) (cov : list (list nat)) : option (list (list nat)) :=
  match cs with
  | [] => Some cov
  | c :: r => match cv_fun fuel body derived c cov with Some cov' => cv_all fuel body derived r cov' | None => None end
  end.
