(* core_driver.ml — hand-written driver around the extracted model (Model/Compile.v) and the extracted
   specification (Spec/Dispatch.v).  Reads registry queries on stdin, prints canonical observation lines.

   query format:
     query <tag>
     alias <tid> <rep>
     class <tid> <abstract 0|1> <bases...>
     method <shape> <vp tids...>
     def <mi> <has_next 0|1> <vp tids...>
     go
   output: lines (see DESIGN.md appendix B), then "done <tag>". *)
open Extractcore

let rec nat_of_int i = if i <= 0 then O else S (nat_of_int (i - 1))
let rec int_of_nat = function O -> 0 | S n -> 1 + int_of_nat n
let rec pos_of_int i = if i = 1 then XH else if i land 1 = 1 then XI (pos_of_int (i lsr 1)) else XO (pos_of_int (i lsr 1))
let n_of_int i = if i = 0 then N0 else Npos (pos_of_int i)
let rec int_of_pos = function XH -> 1 | XO p -> 2 * int_of_pos p | XI p -> 2 * int_of_pos p + 1
let int_of_n = function N0 -> 0 | Npos p -> int_of_pos p
let int_of_z = function Z0 -> 0 | Zpos p -> int_of_pos p | Zneg p -> - (int_of_pos p)

let split_ws s = List.filter (fun x -> x <> "") (String.split_on_char ' ' (String.trim s))
let ints l = List.map int_of_string l
let cat l = String.concat " " (List.map string_of_int l)
let catn l = cat (List.map int_of_nat l)

let cell_name = function CDef i -> "d" ^ string_of_int (int_of_nat i) | CAmb -> "amb" | CNi -> "ni"
let word_name = function
  | WFn (m, i) -> Printf.sprintf "d%d.%d" (int_of_nat m) (int_of_nat i)
  | WNi m -> Printf.sprintf "ni%d" (int_of_nat m)
  | WAmb m -> Printf.sprintf "amb%d" (int_of_nat m)
  | WRow a -> Printf.sprintf "row%d" (int_of_nat a)
  | WIdx g -> Printf.sprintf "idx%d" (int_of_nat g)
  | WJunk -> "junk"
let word_cell = function
  | WFn (_, i) -> "d" ^ string_of_int (int_of_nat i)
  | WNi _ -> "ni" | WAmb _ -> "amb" | _ -> "???"
let outcome_name = function Run i -> "d" ^ string_of_int (int_of_nat i) | NoDefinition -> "ni" | Ambiguous -> "amb"

let nth_or l i d = try List.nth l i with _ -> d

let process tag aliases classes methods =
  let r = { r_classes = List.rev classes; r_methods = List.rev methods; r_alias = List.rev aliases } in
  let pr fmt = Printf.printf fmt in
  (* distinct registered tids, in order *)
  let tids = List.fold_left (fun acc c -> let t = int_of_n c.c_tid in if List.mem t acc then acc else acc @ [t]) [] r.r_classes in
  (match compile r with
   | Err (UnknownClass t) -> pr "update error unknown_class %d\n" (int_of_n t)
   | Err OutOfFuel -> pr "update error model-out-of-fuel\n"
   | Err (BadRead _) -> pr "update error model-bad-read\n"
   | Ok c ->
     pr "update ok\n";
     if not c.o_fuel_ok then pr "model-out-of-fuel\n";
     let l = c.o_lat in
     let first_tid k = match nth_or l.l_info k { k_tids = []; k_abstract = false } with { k_tids = t :: _; _ } -> int_of_n t | _ -> -1 in
     let cls_names ks = List.map (fun k -> first_tid (int_of_nat k)) ks in
     let ncls = List.length l.l_keys in
     for k = 0 to ncls - 1 do
       let info = List.nth l.l_info k in
       pr "class %d tids %s abstract %d tb %s direct %s derived %s cov %s\n" (first_tid k)
         (cat (List.map int_of_n info.k_tids)) (if info.k_abstract then 1 else 0)
         (cat (List.sort compare (cls_names (List.nth l.l_tb k))))
         (cat (cls_names (List.nth l.l_direct k)))
         (cat (cls_names (List.nth l.l_derived k)))
         (cat (List.sort compare (cls_names (List.nth l.l_cov k))))
     done;
     List.iteri (fun mi (m : cmeth) ->
         let t = List.nth c.o_tables mi in
         pr "slots %d %s strides %s\n" mi (catn (List.nth c.o_slots mi)) (catn t.t_strides);
         pr "ss %d %s\n" mi (catn (List.nth c.o_ss mi));
         pr "table %d %s\n" mi (String.concat " " (List.map cell_name t.t_cells));
         let rp = t.t_report in
         pr "report %d cells %d ccells %d ni %d amb %d cni %d camb %d\n" mi (int_of_nat rp.rp_cells) (int_of_nat rp.rp_ccells)
           (int_of_nat rp.rp_ni) (int_of_nat rp.rp_amb) (int_of_nat rp.rp_cni) (int_of_nat rp.rp_camb);
         List.iteri (fun i nx ->
             pr "next %d %d = %s\n" mi i (if nth_or m.cm_has_next i false then cell_name nx else "none-registered")) t.t_nexts)
       c.o_meths;
     let rp = c.o_report in
     pr "report total cells %d ccells %d ni %d amb %d cni %d camb %d\n" (int_of_nat rp.rp_cells) (int_of_nat rp.rp_ccells)
       (int_of_nat rp.rp_ni) (int_of_nat rp.rp_amb) (int_of_nat rp.rp_cni) (int_of_nat rp.rp_camb);
     let written = ref 0 in
     List.iteri (fun mi (m : cmeth) -> if List.length m.cm_vp > 1 then written := !written + List.length (List.nth c.o_tables mi).t_cells) c.o_meths;
     for k = 0 to ncls - 1 do
       let vt = List.nth c.o_vtbl k in
       pr "vtbl %d first %d len %d entries%s vptr %d\n" (first_tid k) (int_of_nat (List.nth c.o_first k)) (List.length vt)
         (String.concat "" (List.map (fun ((a, b), g) -> Printf.sprintf " (%d,%d,%d)" (int_of_nat a) (int_of_nat b) (int_of_nat g)) vt))
         (int_of_z (List.nth c.o_vptr k));
       written := !written + List.length vt
     done;
     pr "image %d :" (List.length c.o_image);
     List.iteri (fun i w -> if i < !written then pr " %s" (word_name w)) c.o_image;
     pr "\n";
     (* every legal tuple of registered ids *)
     let rmeths = Array.of_list r.r_methods in
     List.iteri (fun mi (m : cmeth) ->
         let mr = rmeths.(mi) in
         let vpc = meth_vp r mr in
         let defs = meth_defs r mr in
         let dom = List.map (fun p -> List.filter (fun t -> ancb r p (proj r (n_of_int t))) tids) vpc in
         if List.for_all (fun d -> d <> []) dom then begin
           (* enumerate tuples, first position varying fastest (order is irrelevant: the differ keys on the tuple) *)
           let rec tuples = function
             | [] -> [[]]
             | d :: rest -> let tl = tuples rest in List.concat_map (fun t -> List.map (fun x -> x :: t) d) tl in
           List.iter (fun tup ->
               let classes_ = List.map (fun t -> match class_of r l.l_keys (n_of_int t) with Some k -> k | None -> O) tup in
               let acts = actuals_of c m.cm_shape classes_ in
               let res = resolve c (nat_of_int mi) acts in
               let tups = cat tup in
               let sp = spec_dispatch r defs (List.map (fun t -> proj r (n_of_int t)) tup) in
               (match res with
                | Ok w ->
                  pr "disp %d %s = %s\n" mi tups (word_cell w);
                  (match w with
                   | WFn (_, i) -> pr "call %d %s = ran d%d\n" mi tups (int_of_nat i)
                   | WNi _ -> pr "call %d %s = error status 1 arity %d types %s\n" mi tups (List.length tup) tups
                   | WAmb _ -> pr "call %d %s = error status 2 arity %d types %s\n" mi tups (List.length tup) tups
                   | _ -> pr "call %d %s = ???\n" mi tups)
                | Err (BadRead a) -> pr "disp %d %s = oob %d\n" mi tups (int_of_z a)
                | Err _ -> pr "disp %d %s = error\n" mi tups);
               pr "spec %d %s = %s\n" mi tups (outcome_name sp))
             (tuples dom)
         end;
         List.iteri (fun i _ -> pr "specnext %d %d = %s\n" mi i (outcome_name (spec_next r defs (nat_of_int i)))) defs)
       c.o_meths;
     List.iter (fun t -> pr "vptr %d = ok\n" t) tids;
     List.iter (fun t -> pr "lookup %d = ok\n" t) tids;
     let b x = if x then 1 else 0 in
     pr "specreport ni %d amb %d cni %d camb %d\n" (b (spec_flag r is_nodef false)) (b (spec_flag r is_ambig false))
       (b (spec_flag r is_nodef true)) (b (spec_flag r is_ambig true)));
  pr "done %s\n" tag

let () =
  let tag = ref "" and aliases = ref [] and classes = ref [] and methods = ref [] in
  (try
     while true do
       let line = input_line stdin in
       match split_ws line with
       | "query" :: t :: _ -> tag := t; aliases := []; classes := []; methods := []
       | "alias" :: a :: b :: _ -> aliases := (n_of_int (int_of_string a), n_of_int (int_of_string b)) :: !aliases
       | "class" :: t :: a :: bases ->
         classes := { c_tid = n_of_int (int_of_string t); c_bases = List.map n_of_int (ints bases); c_abstract = (a = "1") } :: !classes
       | "method" :: shape :: vp ->
         methods := { m_vp = List.map n_of_int (ints vp); m_defs = [];
                      m_shape = List.map (fun ch -> ch = 'v') (List.init (String.length shape) (String.get shape)) } :: !methods
       | "def" :: mi :: nx :: vp ->
         let mi = int_of_string mi in
         let n = List.length !methods in
         methods := List.mapi (fun i m -> if n - 1 - i = mi
                                then { m with m_defs = m.m_defs @ [{ d_vp = List.map n_of_int (ints vp); d_has_next = (nx = "1") }] }
                                else m) !methods
       | "go" :: _ -> process !tag !aliases !classes !methods; flush stdout
       | _ -> ()
     done
   with End_of_file -> ())
