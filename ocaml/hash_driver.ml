(* Driver around the extracted model Model/Hash.v (property C05).
   usage: hash_model <case file>
   Case file (tokens separated by blanks, one directive per line, '#' starts a comment line):
     variant checked|fast
     mode throw|abort            what the error handler of the implementation does (abort: output stops at the first error)
     update <budget>             starts an update: the classes, then the recorded stream, then the lookups
     class <vptr tag> <id>...    one registered class: its v-table pointer tag (> 0) and its type ids
     stream <mult>...            candidate multipliers recorded from the implementation (several lines are concatenated)
     lookup <id>...              ids looked up through dynamic_vptr after the update
   Prints the canonical lines documented in harness/h3/hash_driver.cpp. *)
open Extracthash

(* ---- N <-> decimal text (all values fit 64 bits, unsigned) *)
let n_of_int64 (x : int64) : n =
  let rec pos x =
    (* x <> 0 *)
    let hi = Int64.shift_right_logical x 1 in
    let low = Int64.logand x 1L in
    if hi = 0L then XH else if low = 1L then XI (pos hi) else XO (pos hi) in
  if x = 0L then N0 else Npos (pos x)

let n_of_string s =
  try n_of_int64 (Int64.of_string ("0u" ^ s))
  with _ -> failwith ("bad number: " ^ s)

let int64_of_n (x : n) : int64 =
  let rec pos p depth =
    if depth > 64 then failwith "number wider than 64 bits" else
    match p with
    | XH -> 1L
    | XO q -> Int64.shift_left (pos q (depth + 1)) 1
    | XI q -> Int64.logor (Int64.shift_left (pos q (depth + 1)) 1) 1L in
  match x with N0 -> 0L | Npos p -> pos p 1

let string_of_n x = Printf.sprintf "%Lu" (int64_of_n x)
let is_sentinel x = (int64_of_n x = -1L)

let tokens line =
  List.filter (fun s -> s <> "") (String.split_on_char ' ' (String.map (fun c -> if c = '\t' || c = '\r' then ' ' else c) line))

type upd = { mutable classes : cls list; budget : n; mutable stream : n list; mutable lookups : n list }

let () =
  let file = Sys.argv.(1) in
  let ic = open_in file in
  let checked = ref true and abort_mode = ref false in
  let upds = ref [] in
  let cur () = match !upds with u :: _ -> u | [] -> failwith "directive before the first update" in
  (try
     while true do
       let line = input_line ic in
       match tokens line with
       | [] -> ()
       | t :: _ when String.length t > 0 && t.[0] = '#' -> ()
       | ["variant"; "checked"] -> checked := true
       | ["variant"; "fast"] -> checked := false
       | ["mode"; "abort"] -> abort_mode := true
       | ["mode"; "throw"] -> abort_mode := false
       | ["update"; b] -> upds := { classes = []; budget = n_of_string b; stream = []; lookups = [] } :: !upds
       | "class" :: tag :: ids -> let u = cur () in u.classes <- (n_of_string tag, List.map n_of_string ids) :: u.classes
       | "stream" :: ms -> let u = cur () in u.stream <- List.rev_append (List.map n_of_string ms) u.stream
       | "lookup" :: ids -> let u = cur () in u.lookups <- List.rev_append (List.map n_of_string ids) u.lookups
       | ["end"] -> ()
       | _ -> failwith ("bad line: " ^ line)
     done
   with End_of_file -> ());
  close_in ic;
  let upds = List.rev_map (fun u -> { u with classes = List.rev u.classes; stream = List.rev u.stream; lookups = List.rev u.lookups }) !upds in
  let buf = Buffer.create 65536 in
  let flush_buf () = print_string (Buffer.contents buf); Buffer.clear buf in
  let pr fmt = Printf.bprintf buf fmt in
  let print_control st =
    if !checked then begin
      pr "control";
      List.iter (fun x -> if is_sentinel x then pr " -" else pr " %s" (string_of_n x)) st.h_control;
      pr "\n"
    end in
  let print_vptrs v =
    pr "vptrs";
    List.iter (fun x -> match x with None -> pr " -" | Some t -> pr " %s" (string_of_n t)) v;
    pr "\n" in
  let exception Stop in
  let st = ref init_state and v = ref ([] : vptrs_t) in
  (try
     List.iteri (fun k u ->
         let nids = List.fold_left (fun a (_, ids) -> a + List.length ids) 0 u.classes in
         pr "update %d classes %d ids %d budget %s\n" k (List.length u.classes) nids (string_of_n u.budget);
         let lookups_ok = ref true in
         (match publish_vptrs !checked u.stream u.budget !st !v u.classes with
          | Published (st', n, v') ->
            st := st'; v := v';
            pr "hash found mult %s shift %s len %s min %s max %s attempts %s\n"
              (string_of_n st'.h_mult) (string_of_n st'.h_shift) (string_of_n st'.h_length)
              (string_of_n st'.h_min) (string_of_n st'.h_max) (string_of_n n);
            print_control st'; print_vptrs v'
          | PubSearchError (n, b, st') ->
            st := st';
            pr "hash error attempts %s buckets %s\n" (string_of_n n) (string_of_n b);
            if !abort_mode then raise Stop;
            pr "state mult %s shift %s len %s min %s max %s\n"
              (string_of_n st'.h_mult) (string_of_n st'.h_shift) (string_of_n st'.h_length)
              (string_of_n st'.h_min) (string_of_n st'.h_max);
            print_control st'; print_vptrs !v;
            if not !checked then lookups_ok := false
          | PubUnknown (t, _) ->
            pr "publish unknown %s\n" (string_of_n t); raise Stop
          | PubStreamExhausted ->
            pr "model stream-exhausted\n"; raise Stop);
         if !lookups_ok then
           List.iter (fun t ->
               match dynamic_vptr !checked !st !v t with
               | Ok (i, c) ->
                 pr "lookup %s idx %s cls %s\n" (string_of_n t) (string_of_n i)
                   (match c with None -> "-" | Some x -> string_of_n x)
               | Error e ->
                 pr "lookup %s unknown %s\n" (string_of_n t) (string_of_n e);
                 if !abort_mode then raise Stop) u.lookups;
         flush_buf ()) upds
   with Stop -> ());
  flush_buf ()
