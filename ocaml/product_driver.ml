(* C20 — driver around the extracted model Model/Product.v (build/extract/extractproduct.ml).

   usage: product_model <case file>
   case file (written by harness/h2/gen_c20.py: model_case_text):
       flavor first|member
       ls <id> <id> ...        one line per list handed to product<...>, in order
                               (flavor first: the first list is the list of method indexes)
       undef <id> <id> ...     one line per combination marked not_defined (a full element of the product)
       templates <k>           number of templates of the apply_product<> probe

   prints the canonical lines of the generated program (see gen_c20.py):
       product / apply / shape / leaf / catalog / call / done
   `catalog` lines are printed in leaf order (the check sorts them: the construction order of the
   sub-objects of a std::tuple is unspecified), preceded by the harness' catch-all of each method. *)
open Extractproduct

let rec nat_of_int n = if n <= 0 then O else S (nat_of_int (n - 1))
let int_of_nat n = let rec go acc = function O -> acc | S m -> go (acc + 1) m in go 0 n

let code_base = 128

let words s = List.filter (fun w -> w <> "") (String.split_on_char ' ' (String.trim s))

let () =
  let file = Sys.argv.(1) in
  let ic = open_in file in
  let flavor = ref "first" and ls = ref [] and undef = ref [] and templates = ref 0 in
  (try
     while true do
       let line = input_line ic in
       match words line with
       | [] -> ()
       | "flavor" :: f :: _ -> flavor := f
       | "ls" :: xs -> ls := List.map int_of_string xs :: !ls
       | "undef" :: xs -> undef := List.map int_of_string xs :: !undef
       | "templates" :: k :: _ -> templates := int_of_string k
       | w :: _ -> failwith ("product_driver: unknown line " ^ w)
     done
   with End_of_file -> close_in ic);
  let ls_i = List.rev !ls and undef_i = List.rev !undef in
  let first = (!flavor = "first") in
  let to_nat_ll = List.map (List.map nat_of_int) in
  let lsn = to_nat_ll ls_i and undefn = to_nat_ll undef_i in
  let ints c = List.map int_of_nat c in
  let str c = String.concat " " (List.map string_of_int c) in
  (* product *)
  List.iter (fun c -> print_endline (String.trim ("product " ^ str (ints c)))) (product lsn);
  (* apply_product over the class lists *)
  let class_lists = if first then (match lsn with [] -> [] | _ :: r -> r) else lsn in
  if !templates > 0 then begin
    let ts = List.init !templates nat_of_int in
    List.iter (fun (t, c) -> print_endline (String.trim (Printf.sprintf "apply %d %s" (int_of_nat t) (str (ints c)))))
      (apply_product ts class_lists)
  end;
  (* registrations and the aggregate *)
  let reg = if first then scenario_first undefn lsn else scenario_member undefn O lsn in
  (match aggregate reg with
   | None -> print_endline "shape OUT-OF-FUEL"
   | Some t ->
     let rec toks = function
       | Tuple es -> [Printf.sprintf "T%d" (List.length es)]
       | Split (a, b) -> Printf.sprintf "S%d" (int_of_nat aggregate_split_parts) :: (toks a @ toks b) in
     print_endline ("shape " ^ String.concat " " (toks t));
     List.iter (fun (m, c) -> print_endline (String.trim (Printf.sprintf "leaf %d %s" (int_of_nat m) (str (ints c)))))
       (leaves t));
  (* expected catalogs: the catch-all of the harness, then one definition per registration *)
  let methods = if first then (match ls_i with [] -> [] | m :: _ -> m) else [0] in
  let arity = List.length class_lists in
  let reg_i = List.map (fun (m, c) -> (int_of_nat m, ints c)) reg in
  let classes_of c = if first then (match c with [] -> [] | _ :: r -> r) else c in
  List.iter (fun m ->
      print_endline (String.trim (Printf.sprintf "catalog %d %s" m (String.concat " " (List.init arity (fun _ -> "R")))));
      List.iter (fun (m', c) -> if m' = m then print_endline (String.trim (Printf.sprintf "catalog %d %s" m (str (classes_of c))))) reg_i)
    methods;
  (* calls: every method on every combination of dynamic classes *)
  let tbl = Hashtbl.create 997 in
  List.iter (fun (m, c) -> Hashtbl.replace tbl (m, classes_of c) ()) reg_i;
  let class_combos = List.map ints (product class_lists) in
  List.iter (fun m ->
      List.iter (fun c ->
          let r = if Hashtbl.mem tbl (m, c) then List.fold_left (fun acc x -> acc * code_base + x) 0 c else -1 in
          print_endline (Printf.sprintf "call %d %s -> %d" m (str c) r))
        class_combos)
    methods;
  print_endline "done"
