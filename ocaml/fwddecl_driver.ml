(* Driver around the extracted C19 model (Model/FwdDecl.v) and spec (Spec/FwdDeclSpec.v).

   usage: fwddecl_model <case file>          one case per line:
     W name name ...        writer: the names are sorted by bytes and de-duplicated as std::set<std::string> does,
                            then given to the model.  Prints
                              W <text written, escaped>      (or  W !NONE  when a cursor would run off)
                              P <parse of that text>         (qualified names separated by one blank, or !NONE)
     S <description>        scanner: the rest of the line is the type description.  Prints
                              S <names kept, sorted, de-duplicated, separated by one blank>
     O <escaped text>       spec oracle alone: prints  P <parse of the text>
     T <tree>               type tree in prefix form (see checks/C19.py).  Prints
                              T <show tree> | <class_names tree, in order> | <wf_ty>
   Escapes: \n newline, \\ backslash, \s blank (only in O input and W output). *)

module E = Extractfwddecl

let ascii_of_char (c : char) : E.ascii =
  let n = Char.code c in
  let b i = (n lsr i) land 1 = 1 in
  E.Ascii (b 0, b 1, b 2, b 3, b 4, b 5, b 6, b 7)

let char_of_ascii (a : E.ascii) : char =
  match a with
  | E.Ascii (b0, b1, b2, b3, b4, b5, b6, b7) ->
      let v b i = if b then 1 lsl i else 0 in
      Char.chr (v b0 0 + v b1 1 + v b2 2 + v b3 3 + v b4 4 + v b5 5 + v b6 6 + v b7 7)

let text_of_string (s : String.t) : E.text = List.init (String.length s) (fun i -> ascii_of_char s.[i])

let string_of_text (t : E.text) : String.t =
  let b = Buffer.create 64 in
  List.iter (fun a -> Buffer.add_char b (char_of_ascii a)) t;
  Buffer.contents b

let escape (s : String.t) : String.t =
  let b = Buffer.create 64 in
  String.iter
    (fun c ->
      match c with
      | '\n' -> Buffer.add_string b "\\n"
      | '\\' -> Buffer.add_string b "\\\\"
      | c -> Buffer.add_char b c)
    s;
  Buffer.contents b

let unescape (s : String.t) : String.t =
  let b = Buffer.create 64 in
  let n = String.length s in
  let i = ref 0 in
  while !i < n do
    (if s.[!i] = '\\' && !i + 1 < n then begin
       (match s.[!i + 1] with
        | 'n' -> Buffer.add_char b '\n'
        | 's' -> Buffer.add_char b ' '
        | c -> Buffer.add_char b c);
       incr i
     end
     else Buffer.add_char b s.[!i]);
    incr i
  done;
  Buffer.contents b

let words (s : String.t) : String.t list = List.filter (fun w -> w <> "") (String.split_on_char ' ' s)

let show_qnames (qs : E.qname list) : String.t =
  String.concat " " (List.map (fun q -> string_of_text (E.qname_text q)) qs)

let print_parse (out : E.text) =
  match E.parse out with
  | Some qs -> print_endline ("P " ^ show_qnames qs)
  | None -> print_endline "P !NONE"

(* a::b::X -> ([a; b], X) *)
let qname_of_string (s : String.t) : E.qname =
  let parts = Str.split_delim (Str.regexp_string "::") s in
  match List.rev parts with
  | [] -> ([], [])
  | cls :: rpath -> (List.map text_of_string (List.rev rpath), text_of_string cls)

let origin_of = function
  | "U" -> E.User
  | "S" -> E.Std
  | "Y" -> E.Yorel
  | o -> failwith ("origin " ^ o)

let fund_of = function
  | "void" -> E.FVoid | "bool" -> E.FBool | "char" -> E.FChar | "schar" -> E.FSChar | "uchar" -> E.FUChar
  | "wchar_t" -> E.FWChar | "char8_t" -> E.FChar8 | "char16_t" -> E.FChar16 | "char32_t" -> E.FChar32
  | "short" -> E.FShort | "ushort" -> E.FUShort | "int" -> E.FInt | "uint" -> E.FUInt | "long" -> E.FLong
  | "ulong" -> E.FULong | "llong" -> E.FLongLong | "ullong" -> E.FULongLong | "float" -> E.FFloat
  | "double" -> E.FDouble | "ldouble" -> E.FLongDouble
  | f -> failwith ("fund " ^ f)

(* prefix form:  F k | L digits | N o q | A o q n t1..tn | P t | R t | RR t | C t | V t | FN n r p1..pn | FP n r p1..pn *)
let rec tree (toks : String.t list) : E.ty * String.t list =
  match toks with
  | "F" :: k :: r -> (E.TFund (fund_of k), r)
  | "L" :: d :: r -> (E.TLit (text_of_string d), r)
  | "N" :: o :: q :: r -> (E.TName (origin_of o, qname_of_string q), r)
  | "A" :: o :: q :: n :: r ->
      let args, r = trees (int_of_string n) r in
      (E.TApp (origin_of o, qname_of_string q, args), r)
  | "P" :: r -> let t, r = tree r in (E.TPtr t, r)
  | "R" :: r -> let t, r = tree r in (E.TLRef t, r)
  | "RR" :: r -> let t, r = tree r in (E.TRRef t, r)
  | "C" :: r -> let t, r = tree r in (E.TConst t, r)
  | "V" :: r -> let t, r = tree r in (E.TVolatile t, r)
  | "FN" :: n :: r ->
      let ret, r = tree r in
      let ps, r = trees (int_of_string n) r in
      (E.TFun (ret, ps), r)
  | "FP" :: n :: r ->
      let ret, r = tree r in
      let ps, r = trees (int_of_string n) r in
      (E.TFunPtr (ret, ps), r)
  | _ -> failwith "tree"

and trees n toks =
  if n = 0 then ([], toks)
  else
    let t, r = tree toks in
    let ts, r = trees (n - 1) r in
    (t :: ts, r)

let handle (line : String.t) =
  let n = String.length line in
  if n = 0 then ()
  else
    let rest = if n > 2 then String.sub line 2 (n - 2) else "" in
    match line.[0] with
    | 'W' ->
        let names = List.sort_uniq compare (words rest) in
        (match E.write_forward_declarations (List.map text_of_string names) with
         | Some out ->
             print_endline ("W " ^ escape (string_of_text out));
             print_parse out
         | None ->
             print_endline "W !NONE";
             print_endline "P !NONE")
    | 'S' ->
        let names = List.map string_of_text (E.scan (text_of_string rest)) in
        print_endline ("S " ^ String.concat " " (List.sort_uniq compare names))
    | 'O' -> print_parse (text_of_string (unescape rest))
    | 'T' ->
        let t, _ = tree (words rest) in
        print_endline
          ("T " ^ string_of_text (E.show t) ^ " | " ^ show_qnames (E.class_names t) ^ " | "
          ^ if E.wf_ty t then "wf" else "not-wf")
    | '#' -> ()
    | _ -> print_endline ("? " ^ line)

let () =
  let ic = open_in Sys.argv.(1) in
  (try
     while true do
       handle (input_line ic)
     done
   with End_of_file -> ());
  close_in ic
