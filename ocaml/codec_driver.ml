(* codec_driver.ml — hand-written driver around the extracted models of write_static_offsets / check_static_offset
   (Model/Offsets.v) and encode_dispatch_data / decode_dispatch_data (Model/Codec.v), on top of the extracted
   model of update (Model/Compile.v).  Same registry query format as core_driver.ml:
     query <tag> / alias <tid> <rep> / class <tid> <abstract> <bases...> / method <shape> <vp...> /
     def <mi> <has_next> <vp...> / go
   output per query (canonical lines, compared with harness/h3/codec_driver.cpp):
     update ok | update error ...
     offsets <mi> slots <...> strides <...>
     check <mi> ok = accepted
     check <mi> <p> = static_slot | static_stride | accepted           static offsets with position p altered
     check <mi> <p> <q> = ...                                          two positions altered
     codec sizes H <h> S <s> E <e> D <d> T <t>
     codec cells slots <...> vtbls <...> dtbls <...>
     codec decoded <image words>   |   codec error <what>
     codec ss <mi> <...>
     codec vptr <class> <offset from the decoded v-tables>
     codec log writes <n> maxneed <k>        (model only)
     done <tag> *)
open Extractcodec

let rec nat_of_int i = if i <= 0 then O else S (nat_of_int (i - 1))
let rec int_of_nat = function O -> 0 | S n -> 1 + int_of_nat n
let rec pos_of_int i = if i = 1 then XH else if i land 1 = 1 then XI (pos_of_int (i lsr 1)) else XO (pos_of_int (i lsr 1))
let n_of_int i = if i = 0 then N0 else Npos (pos_of_int i)
let rec int_of_pos = function XH -> 1 | XO p -> 2 * int_of_pos p | XI p -> 2 * int_of_pos p + 1
let int_of_n = function N0 -> 0 | Npos p -> int_of_pos p
let int_of_z = function Z0 -> 0 | Zpos p -> int_of_pos p | Zneg p -> - (int_of_pos p)

let split_ws s = List.filter (fun x -> x <> "") (String.split_on_char ' ' (String.trim s))
let ints l = List.map int_of_string l
let cat l = String.concat " " (List.map string_of_int l)
let catn l = cat (List.map int_of_nat l)
let catN l = cat (List.map int_of_n l)
let nth_or l i d = try List.nth l i with _ -> d

let word_name = function
  | WFn (m, i) -> Printf.sprintf "d%d.%d" (int_of_nat m) (int_of_nat i)
  | WNi m -> Printf.sprintf "ni%d" (int_of_nat m)
  | WAmb m -> Printf.sprintf "amb%d" (int_of_nat m)
  | WRow a -> Printf.sprintf "row%d" (int_of_nat a)
  | WIdx g -> Printf.sprintf "idx%d" (int_of_nat g)
  | WJunk -> "junk"

let cerr_name = function
  | TooManyInitializers -> "too-many-initializers"
  | ReadOutside i -> Printf.sprintf "read-outside %d" (int_of_nat i)
  | ReadClobbered i -> Printf.sprintf "read-clobbered %d" (int_of_nat i)
  | AssertFailed i -> Printf.sprintf "assert-failed %d" (int_of_nat i)
  | WriteOutside w -> Printf.sprintf "write-outside %d" (int_of_nat w)
  | BadMethodIndex m -> Printf.sprintf "bad-method-index %d" (int_of_nat m)
  | BadSpecIndex (m, s) -> Printf.sprintf "bad-spec-index %d %d" (int_of_nat m) (int_of_nat s)
  | NoFuel -> "model-out-of-fuel"

let check_name = function ChkOk -> "accepted" | ChkSlot _ -> "static_slot" | ChkStride _ -> "static_stride"

let bump l p = List.mapi (fun i x -> if i = p then S x else x) l

let process tag aliases classes methods =
  let r = { r_classes = List.rev classes; r_methods = List.rev methods; r_alias = List.rev aliases } in
  let pr fmt = Printf.printf fmt in
  (match compile r with
   | Err (UnknownClass t) -> pr "update error unknown_class %d\n" (int_of_n t)
   | Err OutOfFuel -> pr "update error model-out-of-fuel\n"
   | Err (BadRead _) -> pr "update error model-bad-read\n"
   | Ok c ->
     pr "update ok\n";
     if not c.o_fuel_ok then pr "model-out-of-fuel\n";
     let l = c.o_lat in
     let first_tid k = match nth_or l.l_info k { k_tids = []; k_abstract = false } with { k_tids = t :: _; _ } -> int_of_n t | _ -> -1 in
     let nm = List.length c.o_meths in
     (* ---- C12 *)
     for mi = 0 to nm - 1 do
       let (sl, st) = printed_offsets c (nat_of_int mi) in
       pr "offsets %d slots %s strides %s\n" mi (catn sl) (catn st);
       let (osl, ost) = printed_offsets_legacy c (nat_of_int mi) in
       if (osl, ost) <> (sl, st) then pr "legacy-offsets %d slots %s strides %s\n" mi (catn osl) (catn ost)
     done;
     for mi = 0 to nm - 1 do
       let ss = nth_or c.o_ss mi [] in
       let ar = arity_of c (nat_of_int mi) in
       let a = int_of_nat ar in
       let (sl, st) = printed_offsets c (nat_of_int mi) in
       pr "check %d ok = %s\n" mi (check_name (debug_check ss (sl, st) ar));
       (* static offsets altered at flat position p (slots 0..a-1, then strides) *)
       let alter ps = List.fold_left (fun (sl, st) p -> if p < a then (bump sl p, st) else (sl, bump st (p - a))) (sl, st) ps in
       let npos = 2 * a - 1 in
       for p = 0 to npos - 1 do
         pr "check %d %d = %s\n" mi p (check_name (debug_check ss (alter [p]) ar))
       done;
       for p = 0 to npos - 1 do
         for q = p + 1 to npos - 1 do
           pr "check %d %d %d = %s\n" mi p q (check_name (debug_check ss (alter [p; q]) ar))
         done
       done
     done;
     (* ---- C13 *)
     let e = encode c in
     pr "codec sizes H %d S %d E %d D %d T %d\n" (int_of_nat e.e_H) (int_of_nat e.e_S) (int_of_nat e.e_E) (int_of_nat e.e_D) (int_of_nat e.e_T);
     pr "codec cells slots %s vtbls %s dtbls %s\n" (catN e.e_slots) (catN e.e_vtbls) (catN e.e_dtbls);
     if not (smallb c) then pr "model-not-small\n";
     (match decode (ctx_of c) e with
      | CErr x -> pr "codec error %s\n" (cerr_name x)
      | COk d ->
        pr "codec decoded %s\n" (String.concat " " (List.map word_name (dd_image d)));
        List.iteri (fun mi ss -> pr "codec ss %d %s\n" mi (catn ss)) d.dd_ss;
        List.iteri (fun k z -> pr "codec vptr %d %d\n" (first_tid k) (int_of_z z)) d.dd_vptr;
        (* the in-place margin: over all writes, the least number of cells that must precede encoded.vtbls *)
        let base = int_of_nat e.e_H + int_of_nat e.e_S in
        let need = List.fold_left (fun m (w, rd) -> max m (4 * (int_of_nat w + 1) - (int_of_nat rd - base))) 0 d.dd_log in
        pr "codec log writes %d maxneed %d lead %d\n" (List.length d.dd_log) need base));
  pr "done %s\n" tag

let () =
  let tag = ref "" and aliases = ref [] and classes = ref [] and methods = ref [] in
  (try
     while true do
       let line = input_line stdin in
       match split_ws line with
       | "query" :: t :: _ -> tag := t; aliases := []; classes := []; methods := []
       | "alias" :: a :: b :: _ -> aliases := (n_of_int (int_of_string a), n_of_int (int_of_string b)) :: !aliases
       | "class" :: t :: a :: bases ->
         classes := { c_tid = n_of_int (int_of_string t); c_bases = List.map n_of_int (ints bases); c_abstract = (a = "1") } :: !classes
       | "method" :: shape :: vp ->
         methods := { m_vp = List.map n_of_int (ints vp); m_defs = [];
                      m_shape = List.map (fun ch -> ch = 'v') (List.init (String.length shape) (String.get shape)) } :: !methods
       | "def" :: mi :: nx :: vp ->
         let mi = int_of_string mi in
         let n = List.length !methods in
         methods := List.mapi (fun i m -> if n - 1 - i = mi
                                then { m with m_defs = m.m_defs @ [{ d_vp = List.map n_of_int (ints vp); d_has_next = (nx = "1") }] }
                                else m) !methods
       | "go" :: _ -> process !tag !aliases !classes !methods; flush stdout
       | _ -> ()
     done
   with End_of_file -> ())
