(* Driver around the extracted C09 / C15-routes model (coq/Model/VirtualPtr.v).

   usage: virtualptr_model <scenario.txt>
   Input: the line format written by harness/h2/gen_c09.py (emit_model_input):
     config <hash 0=none|1=fast|2=checked> <placement 0=vector|1=map> <indirect 0|1>
     hdr <text>                                  header line of the program, copied
     class <id> <name>                           names used when an error is printed
     disp <method> <epoch> <c1> <c2|-> <label>   which definition a table row designates (C01's subject,
                                                 computed by the generator): (method, update number, classes)
     update <e> <n> <id>*                        update<Policy>() number e compiling these classes
     obj <name> <id> <class> <ctrl>              complete object; ctrl = control block (0: not shared)
     ptr <name> <route> <obj> <stat> <src|->     make a virtual_ptr (routes: see route_of below)
     ident <ptr>                                 get / * / -> / owner
     call <ptr> <method> <root> <other|->        call through the pointer and through a plain reference
     same <ptr> <judged 0|1>                     _vptr() against the class's current static v-table pointer
     case <label> <route> <obj> <stat> <method> <root> <other|->     C15 route case (error expected)
   Output: the trace a generated program is expected to print (same canonical lines). *)

open Extractvirtualptr

let rec pos_of_int (i : int) : positive =
  if i = 1 then XH else if i land 1 = 0 then XO (pos_of_int (i lsr 1)) else XI (pos_of_int (i lsr 1))
let n_of_int (i : int) : n = if i = 0 then N0 else Npos (pos_of_int i)
let rec int_of_pos = function XH -> 1 | XO p -> 2 * int_of_pos p | XI p -> 2 * int_of_pos p + 1
let int_of_n = function N0 -> 0 | Npos p -> int_of_pos p
let rec nat_of_int (i : int) : nat = if i <= 0 then O else S (nat_of_int (i - 1))
let rec int_of_nat = function O -> 0 | S m -> 1 + int_of_nat m

let split_ws s = List.filter (fun x -> x <> "") (String.split_on_char ' ' (String.trim s))

type objinfo = { oid : int; ocls : int; octrl : int }

let cfg = ref (mk_config O O O)
let st = ref init_state
let names : (int, string) Hashtbl.t = Hashtbl.create 16
let disp : (string, string) Hashtbl.t = Hashtbl.create 64
let objs : (string, objinfo) Hashtbl.t = Hashtbl.create 16
let ptrs : (string, vptr * string) Hashtbl.t = Hashtbl.create 64     (* pointer, name of its object *)

let cname c = try Hashtbl.find names c with Not_found -> if c >= 1000 then "SP_K" ^ string_of_int (c - 1000) else "?" ^ string_of_int c
let box_of stat = n_of_int (1000 + stat)

let err_str = function
  | UnknownClass c -> "unknown_class:" ^ cname (int_of_n c)
  | MethodTable c -> "method_table:" ^ cname (int_of_n c)

(* route name -> how the model makes the pointer *)
type made = Made of vptr * int (* owners added *) | Failed of err | Undefined

let via_added p v = int_of_nat (owners_added p v)

let make route (o : objinfo) (stat : int) (src : (vptr * string) option) : made =
  let arg srck = mk_arg (n_of_int o.oid) (n_of_int o.ocls) (n_of_int stat) (nat_of_int srck) (n_of_int o.octrl) (box_of stat) in
  let of_m _ m = match outcome m with
    | Ok p -> Made (p, via_added p ViaCopy)
    | Error e -> Failed e
    | UB -> Undefined in
  let from f v = match src with
    | Some (q, _) -> let p = f q in Made (p, via_added p v)
    | None -> Undefined in
  match route with
  | "exact" | "base" -> of_m 0 (ctor !cfg !st (arg 0))
  | "final" | "final_fn" -> of_m 0 (final_ !cfg !st (arg 0))
  | "s_const" -> of_m 1 (ctor !cfg !st (arg 1))
  | "s_lvalue" -> of_m 1 (ctor !cfg !st (arg 2))
  | "s_rvalue" | "s_xvalue" -> of_m 1 (ctor !cfg !st (arg 3))
  | "s_final_const" -> of_m 1 (final_ !cfg !st (arg 1))
  | "s_final_lvalue" -> of_m 1 (final_ !cfg !st (arg 2))
  | "s_final_rvalue" -> of_m 1 (final_ !cfg !st (arg 3))
  | "s_make" -> of_m 1 (make_virtual_shared !cfg !st (n_of_int o.oid) (n_of_int o.ocls) (n_of_int o.octrl) (box_of stat))
  | "copy" | "ccopy" | "s_copy" -> from copy ViaCopy
  | "move" | "s_move" -> from move ViaMove
  | "up" | "s_up" -> from (fun q -> conv q (n_of_int stat)) ViaCopy
  | "upmove" | "s_upmove" -> from (fun q -> conv q (n_of_int stat)) ViaMove
  | "cast" | "s_cast" -> from (fun q -> cast q (n_of_int stat)) ViaCast
  | _ -> failwith ("unknown route " ^ route)

let table_str = function
  | None -> None
  | Some (c, e) -> Some (int_of_n c, int_of_nat e)

let lookup_label m t1 t2 =
  match t1, t2 with
  | None, _ -> "null-vptr"
  | Some (c1, e1), None -> (try Hashtbl.find disp (Printf.sprintf "%s %d %d -" m e1 c1) with Not_found -> Printf.sprintf "no-row(%d,%d)" c1 e1)
  | Some (c1, e1), Some (c2, e2) ->
      if e1 <> e2 then Printf.sprintf "stale-table(%d,%d)" c1 e1
      else (try Hashtbl.find disp (Printf.sprintf "%s %d %d %d" m e1 c1 c2) with Not_found -> Printf.sprintf "no-row(%d,%d,%d)" c1 c2 e1)

(* the table a plain reference argument of dynamic class c gives *)
let ref_table c =
  match outcome (dynamic_vptr !cfg !st (n_of_int c)) with
  | Ok t -> `T (table_str (Some t))
  | Error e -> `E e
  | UB -> `U

let call_labels (p : vptr) (oname : string) m root other =
  (* the call converts virtual_ptr<stat> to the method's virtual_ptr<root>: a converting copy *)
  let pc = conv p (n_of_int root) in
  let o = Hashtbl.find objs oname in
  let t2 = match other with
    | "-" -> `T None
    | on -> ref_table (Hashtbl.find objs on).ocls in
  let through_ptr = match t2 with
    | `T t2 -> `L (lookup_label m (table_str (deref !st pc)) t2)
    | `E e -> `E e | `U -> `U in
  let through_ref = match ref_table o.ocls, t2 with
    | `T t1, `T t2 -> `L (lookup_label m t1 t2)
    | `E e, _ -> `E e | _, `E e -> `E e
    | _ -> `U in
  (through_ptr, through_ref)

let lab = function `L s -> s | `E e -> "error=" ^ err_str e | `U -> "undefined"

let () =
  let ic = open_in Sys.argv.(1) in
  (try
     while true do
       let line = input_line ic in
       match split_ws line with
       | [] -> ()
       | [ "config"; h; p; i ] -> cfg := mk_config (nat_of_int (int_of_string h)) (nat_of_int (int_of_string p)) (nat_of_int (int_of_string i))
       | "hdr" :: rest -> Printf.printf "H %s\n" (String.concat " " rest)
       | [ "class"; id; name ] -> Hashtbl.replace names (int_of_string id) name
       | [ "disp"; m; e; c1; c2; label ] -> Hashtbl.replace disp (Printf.sprintf "%s %s %s %s" m e c1 c2) label
       | "update" :: e :: _n :: ids ->
           st := update !cfg (List.map (fun s -> n_of_int (int_of_string s)) ids) !st;
           if int_of_nat !st.epoch <> int_of_string e then Printf.printf "! epoch mismatch %d\n" (int_of_nat !st.epoch);
           Printf.printf "U %s\n" e
       | [ "obj"; name; id; c; ctrl ] ->
           Hashtbl.replace objs name { oid = int_of_string id; ocls = int_of_string c; octrl = int_of_string ctrl }
       | [ "ptr"; name; route; oname; stat; src ] ->
           let o = Hashtbl.find objs oname in
           let s = if src = "-" then None else Some (Hashtbl.find ptrs src) in
           (match make route o (int_of_string stat) s with
            | Made (p, added) ->
                Hashtbl.replace ptrs name (p, oname);
                let extra = (match route, s with
                 | ("move" | "s_move" | "upmove" | "s_upmove"), Some (q, qo) ->
                     let q' = moved_from q in
                     Hashtbl.replace ptrs src (q', qo);
                     Printf.sprintf " srcnull=%d" (if q'.smart && q'.owner = None then 1 else 0)
                 | _ -> "") in
                Printf.printf "P %s route=%s obj=%s stat=K%s ok uc=%s%s\n" name route oname stat
                  (if p.smart then string_of_int added else "-") extra
            | Failed e -> Printf.printf "P %s route=%s obj=%s stat=K%s error=%s\n" name route oname stat (err_str e)
            | Undefined -> Printf.printf "P %s route=%s obj=%s stat=K%s undefined\n" name route oname stat)
       | [ "ident"; name ] ->
           let p, oname = Hashtbl.find ptrs name in
           let o = Hashtbl.find objs oname in
           let same = if int_of_n (get p) = o.oid then 1 else 0 in
           let own = if p.smart then (match p.owner with Some c when int_of_n c = o.octrl -> "1" | _ -> "0") else "-" in
           Printf.printf "I %s get=%d star=%d arrow=%d own=%s\n" name same same (int_of_n (get p) * 100 + int_of_n p.stat) own
       | [ "call"; name; m; root; other ] ->
           let p, oname = Hashtbl.find ptrs name in
           let a, b = call_labels p oname m (int_of_string root) other in
           Printf.printf "C %s %s other=%s ptr=%s ref=%s\n" name m other (lab a) (lab b)
       | [ "same"; name; judged ] ->
           let p, oname = Hashtbl.find ptrs name in
           let o = Hashtbl.find objs oname in
           let cur = (n_of_int o.ocls, !st.epoch) in
           let same = match deref !st p with Some t when t = cur -> 1 | _ -> 0 in
           if judged = "1" then Printf.printf "S %s same=%d\n" name same
       | [ "case"; label; route; oname; stat; m; root; other ] ->
           let o = Hashtbl.find objs oname in
           (match route with
            | "call_ref" | "call_ptr" | "call_shared" | "call_cshared" ->
                (match ref_table o.ocls, (if other = "-" then `T None else ref_table (Hashtbl.find objs other).ocls) with
                 | `E e, _ | `T _, `E e -> Printf.printf "X %s route=%s error=%s defs=0\n" label route (err_str e)
                 | `T t1, `T t2 -> Printf.printf "X %s route=%s ok ptr=%s\n" label route (lookup_label m t1 t2)
                 | _ -> Printf.printf "X %s route=%s undefined\n" label route)
            | "call_second" ->
                (* first argument: object [other] (registered), second: [oname] *)
                (match ref_table (Hashtbl.find objs other).ocls, ref_table o.ocls with
                 | `E e, _ | `T _, `E e -> Printf.printf "X %s route=%s error=%s defs=0\n" label route (err_str e)
                 | `T t1, `T t2 -> Printf.printf "X %s route=%s ok ptr=%s\n" label route (lookup_label m t1 t2)
                 | _ -> Printf.printf "X %s route=%s undefined\n" label route)
            | _ ->
                (match make route o (int_of_string stat) None with
                 | Failed e -> Printf.printf "X %s route=%s error=%s defs=0\n" label route (err_str e)
                 | Undefined -> Printf.printf "X %s route=%s undefined\n" label route
                 | Made (p, _) ->
                     let pc = conv p (n_of_int (int_of_string root)) in
                     Printf.printf "X %s route=%s ok ptr=%s\n" label route (lookup_label m (table_str (deref !st pc)) None)))
       | w :: _ -> failwith ("unknown line: " ^ w)
     done
   with End_of_file -> ());
  print_string "END\n"
