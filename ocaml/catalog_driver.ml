(* C18 — driver around the extracted static_list model (coq/Model/Catalog.v).

   usage: catalog_model [--abs] <case file>

   case file: one case per line, ops separated by blanks: p<k> push node k, r<k> remove node k,
   c clear. Blank lines and lines starting with # are skipped. The pool is nodes 0 .. max id.

   default mode (concrete pointer model), one line per case, same text as harness/h3/catalog_driver.cpp:
     <ops> => <step>;<step>;...
     step = <op>:[a,b,..] n=<size> e=<0|1> f=<first|-> ok=<push precondition before the op|-> L=<prev>/<next>,...   (one pair per pool node)
     an iteration that does not end within pool+1 steps prints [LOOP] n=LOOP; a model fault prints FAULT and ends the case.
   --abs (abstract list semantics: abs_step / legal / remove_case / live_pushes), one line per case:
     <ops> => <step>;...;live=[..]
     step = <op>:[a,b,..] n=<length> e=<0|1> legal=<0|1> case=<only|first|last|middle|-> *)
open Extractcatalog

let rec nat_of_int n = if n <= 0 then O else S (nat_of_int (n - 1))
let rec int_of_nat = function O -> 0 | S k -> 1 + int_of_nat k

let parse_op tok =
  let n = String.length tok in
  if tok = "c" then Clear
  else if n >= 2 && tok.[0] = 'p' then Push (nat_of_int (int_of_string (String.sub tok 1 (n - 1))))
  else if n >= 2 && tok.[0] = 'r' then Remove (nat_of_int (int_of_string (String.sub tok 1 (n - 1))))
  else failwith ("bad op " ^ tok)

let op_id = function Push n | Remove n -> int_of_nat n | Clear -> -1

let show_opt = function None -> "-" | Some n -> string_of_int (int_of_nat n)
let show_list l = "[" ^ String.concat "," (List.map (fun n -> string_of_int (int_of_nat n)) l) ^ "]"
let b2s b = if b then "1" else "0"

let concrete toks ops =
  let pool = 1 + List.fold_left (fun m o -> max m (op_id o)) (-1) ops in
  let fuel = nat_of_int (pool + 1) in
  let buf = Buffer.create 1024 in
  let rec go s = function
    | [] -> ()
    | (tok, o) :: rest ->
        let ok = match o with Push n -> b2s (push_pre s n) | _ -> "-" in
        let s' = step fuel s o in
        Buffer.add_string buf tok;
        if s'.fault then Buffer.add_string buf ":FAULT"
        else begin
          (match iterate fuel s' with
           | Some l ->
               Buffer.add_string buf (":" ^ show_list l);
               (match size fuel s' with
                | Some n -> Buffer.add_string buf (" n=" ^ string_of_int (int_of_nat n))
                | None -> Buffer.add_string buf " n=LOOP")
           | None -> Buffer.add_string buf ":[LOOP] n=LOOP");
          Buffer.add_string buf (" e=" ^ b2s (empty s') ^ " f=" ^ show_opt s'.first ^ " ok=" ^ ok ^ " L=");
          for k = 0 to pool - 1 do
            let n = nat_of_int k in
            if k > 0 then Buffer.add_char buf ',';
            Buffer.add_string buf (show_opt (s'.prv n) ^ "/" ^ show_opt (s'.nxt n))
          done;
          if rest <> [] then Buffer.add_char buf ';';
          go s' rest
        end
  in
  go empty_st (List.combine toks ops);
  Buffer.contents buf

let show_case = function
  | ROnly -> "only" | RFirst -> "first" | RLast -> "last" | RMiddle -> "middle" | RAbsent -> "-"

let abstract toks ops =
  let buf = Buffer.create 1024 in
  let rec go l = function
    | [] -> ()
    | (tok, o) :: rest ->
        let lg = legal l o in
        let cs = match o with Remove n -> show_case (remove_case n l) | _ -> "-" in
        let l' = abs_step l o in
        Buffer.add_string buf
          (tok ^ ":" ^ show_list l' ^ " n=" ^ string_of_int (List.length l') ^ " e=" ^ b2s (l' = [])
           ^ " legal=" ^ b2s lg ^ " case=" ^ cs ^ ";");
        go l' rest
  in
  go [] (List.combine toks ops);
  Buffer.add_string buf ("live=" ^ show_list (live_pushes ops));
  Buffer.contents buf

let () =
  let abs, file =
    match Array.to_list Sys.argv with
    | [_; "--abs"; f] -> true, f
    | [_; f] -> false, f
    | _ -> prerr_endline "usage: catalog_model [--abs] <case file>"; exit 2
  in
  let ic = open_in file in
  let out = Buffer.create (1 lsl 20) in
  (try
     while true do
       let line = String.trim (input_line ic) in
       if line <> "" && line.[0] <> '#' then begin
         let toks = List.filter (fun t -> t <> "") (String.split_on_char ' ' line) in
         let ops = List.map parse_op toks in
         Buffer.add_string out (String.concat " " toks ^ " => ");
         Buffer.add_string out (if abs then abstract toks ops else concrete toks ops);
         Buffer.add_char out '\n';
         if Buffer.length out > (1 lsl 20) then begin print_string (Buffer.contents out); Buffer.clear out end
       end
     done
   with End_of_file -> ());
  print_string (Buffer.contents out)
