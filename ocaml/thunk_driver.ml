(* Driver around the extracted C11 model (coq/Model/Subobject.v, Thunk.v).

   usage: thunk_model <scenario.txt>
   Input: the line format written by harness/h2/gen_c11.py (model_input):
     class <id> <nbases> (<base> <virtual01>)*
     object <name> <class>
     call <callid> <method> <route 0=fn|1=macro> <defname>
     varg <pos> <kind 0..7> <objname> <C> <D> <expr 0=prvalue|1=xvalue|2=lvalue> <len> <x0> .. <xn>
     keep <pos>          (the definition keeps a copy of the smart pointer of that varg; the caller then drops its own)
     narg <pos> <cat 0=val|1=lref|2=rref|3=moveonly> <expr> <value>
     ret <rkind 0=void|1=int|2=val|3=lref|4=moveonly> <value>
     endcall
   Output: the trace a generated program is expected to print (same canonical lines). *)

open Extractthunk

let rec pos_of_int (i : int) : positive =
  if i = 1 then XH else if i land 1 = 0 then XO (pos_of_int (i lsr 1)) else XI (pos_of_int (i lsr 1))

let n_of_int (i : int) : n = if i = 0 then N0 else Npos (pos_of_int i)

let rec int_of_pos = function XH -> 1 | XO p -> 2 * int_of_pos p | XI p -> 2 * int_of_pos p + 1

let int_of_n = function N0 -> 0 | Npos p -> int_of_pos p

let rec nat_of_int (i : int) : nat = if i <= 0 then O else S (nat_of_int (i - 1))

let rec int_of_nat = function O -> 0 | S m -> 1 + int_of_nat m

let path_str (s : sub) = String.concat "." (List.map (fun c -> string_of_int (int_of_n c)) s)

let kind_names = [| "ref"; "rref"; "ptr"; "shared"; "cshared"; "vptr"; "vsptr"; "cvsptr" |]
let cat_names = [| "val"; "lref"; "rref"; "moveonly" |]
let rkind_names = [| "void"; "int"; "val"; "lref"; "moveonly" |]

let split_ws s = List.filter (fun x -> x <> "") (String.split_on_char ' ' (String.trim s))

let () =
  let file = Sys.argv.(1) in
  let ic = open_in file in
  let hier = ref [] in
  let tot_cp = ref 0 and tot_mv = ref 0 in
  let pending_ret = ref None in
  let owners : (string, bool * int) Hashtbl.t = Hashtbl.create 7 in
  let keeps = ref [] in
  let route = ref 0 in
  let callid = ref "" in
  let header_done = ref false in
  let header () =
    if not !header_done then begin
      header_done := true;
      let h = List.rev !hier in
      Printf.printf "H classes=%d wf=%d\n" (List.length h) (if wf_hier h then 1 else 0)
    end in
  (try
     while true do
       let line = input_line ic in
       match split_ws line with
       | [] -> ()
       | "class" :: id :: _nb :: rest ->
           let rec bases = function
             | b :: v :: t -> (n_of_int (int_of_string b), v = "1") :: bases t
             | _ -> [] in
           hier := (n_of_int (int_of_string id), bases rest) :: !hier
       | [ "object"; name; cls ] ->
           header ();
           let h = List.rev !hier in
           let c = n_of_int (int_of_string cls) in
           let subs = subobjects h (default_fuel h) c in
           let n = List.length subs in
           Printf.printf "O %s cls=%s nsub=%d ctor=%d ok=1\n" name cls n n
       | [ "call"; id; m; r; defname ] ->
           header ();
           callid := id;
           route := int_of_string r;
           tot_cp := 0;
           tot_mv := 0;
           pending_ret := None;
           Hashtbl.reset owners;
           keeps := [];
           Printf.printf "C %s m=%s route=%s\n" id m (if !route = 0 then "fn" else "macro");
           Printf.printf "D %s\n" defname
       | "varg" :: p :: k :: objname :: c :: d :: e :: _len :: path ->
           let h = List.rev !hier in
           let ki = int_of_string k in
           let s = List.map (fun x -> n_of_int (int_of_string x)) path in
           let pr =
             predict_varg h (kind_of_nat (nat_of_int ki)) (n_of_int (int_of_string c)) s
               (n_of_int (int_of_string d)) (expr_of_nat (nat_of_int (int_of_string e))) in
           Hashtbl.replace owners p
             (pr.vp_same_owner = Some true, List.length (subobjects h (default_fuel h) (n_of_int (int_of_string c))));
           let sd b = if b then "S" else "D" in
           let ob = function None -> "-" | Some true -> "1" | Some false -> "0" in
           Printf.printf "V %s k=%s obj=%s path=%s lib=%s lang=%s back=%s uc=%s own=%s\n" p
             kind_names.(ki)
             (match pr.vp_result with Some _ -> objname | None -> "?")
             (match pr.vp_result with Some r -> path_str r | None -> "?")
             (sd pr.vp_lib_static) (sd pr.vp_lang_static) (ob pr.vp_back)
             (match pr.vp_uc with None -> "-" | Some u -> string_of_int (int_of_nat u))
             (ob pr.vp_same_owner)
       | [ "keep"; p ] -> keeps := p :: !keeps
       | [ "narg"; p; c; e; v ] ->
           let ci = int_of_string c in
           let cat = ncat_of_nat (nat_of_int ci) in
           let st =
             thunk_narg (route_of_nat (nat_of_int !route)) cat
               (expr_of_nat (nat_of_int (int_of_string e)))
               (n_of_int (int_of_string v)) in
           let cp = int_of_nat st.ns_copies and mv = int_of_nat st.ns_moves in
           tot_cp := !tot_cp + cp;
           tot_mv := !tot_mv + mv;
           Printf.printf "N %s c=%s val=%d cp=%d mv=%d same=%s\n" p cat_names.(ci)
             (int_of_n st.ns_value) cp mv
             (if narg_same_object cat then "1" else "-")
       | [ "ret"; k; v ] -> pending_ret := Some (int_of_string k, int_of_string v)
       | [ "endcall" ] ->
           Printf.printf "T cp=%d mv=%d as=0\n" !tot_cp !tot_mv;
           (match !pending_ret with
            | None -> ()
            | Some (k, v) ->
                let st =
                  thunk_return (route_of_nat (nat_of_int !route)) (rkind_of_nat (nat_of_int k))
                    (n_of_int v) in
                let value = int_of_n st.ns_value in
                let cp = int_of_nat st.ns_copies and mv = int_of_nat st.ns_moves in
                (match k with
                 | 0 -> Printf.printf "R k=void val=- cp=- mv=- same=-\n"
                 | 1 -> Printf.printf "R k=int val=%d cp=- mv=- same=-\n" value
                 | 3 -> Printf.printf "R k=lref val=%d cp=%d mv=%d same=1\n" value cp mv
                 | _ -> Printf.printf "R k=%s val=%d cp=%d mv=%d same=-\n" rkind_names.(k) value cp mv));
           Printf.printf "X cp=%d mv=%d as=0\n" !tot_cp !tot_mv;
           (* a copy of a pointer that shares the caller's control block keeps the object alive after the
              caller dropped its own pointers, and releases it when it is dropped in turn *)
           let alive = ref 0 in
           List.iter
             (fun p ->
               let o, nsub = try Hashtbl.find owners p with Not_found -> (false, 0) in
               if o then alive := !alive + nsub;
               Printf.printf "K %s kept=%d\n" p (if o then 1 else 0))
             (List.rev !keeps);
           if !keeps <> [] then Printf.printf "L alive=%d freed=1\n" !alive;
           Printf.printf "E %s\n" !callid
       | _ -> Printf.printf "?? %s\n" line
     done
   with End_of_file -> ());
  header ();
  print_string "END\n"
