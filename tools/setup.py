#!/usr/bin/env python3
import os, sys, glob
sys.path.insert(0, os.path.dirname(os.path.abspath(__file__)))
import vlib
errs = vlib.regen_gen()
for f, out in errs:
    print('translator failed:', f, out[-500:])
vlib.coq_project()
os.makedirs(os.path.join(vlib.BUILD, 'extract'), exist_ok=True)
rc, out = vlib.run(['make', '-k', '-j%d' % vlib.NJOBS], cwd=vlib.COQ, timeout=3000)
print(out[-3000:])
print('coq make rc', rc)
# warm the harness caches (each check rebuilds from /repo when the hash changes)
warm = os.path.join(vlib.VERIF, 'tools', 'warm.py')
if os.path.exists(warm):
    rc2, out2 = vlib.run([sys.executable, warm], timeout=3000)
    print(out2[-3000:])
# a proof that does not build is reported by the check of the property it serves; setup itself only fails when nothing builds
sys.exit(0 if os.path.exists(os.path.join(vlib.COQ, 'Model', 'Compile.vo')) else 1)
