#!/usr/bin/env python3
"""C14 on harness H1: several policies, obtained from one another by rebind / replace / remove and sharing class ids,
driven by ONE interleaved history in ONE process.

Case text = H1 case text (harness/h1/main.cpp) + directives in comment lines (H1 skips lines starting with '#'):

    #= act <pol> <kind>          the lines that follow change policy <pol> (registration, unregistration, handler)
    #= update <pol> <registry>   the next line is `@<pol> update`; <registry> (JSON, one line) is what is live in <pol>
    #= obs <pol>                 the lines that follow observe <pol> WITHOUT changing anything: observe (dispatch walk,
                                 real resolve and call on every legal tuple, v-table pointer lookups), mkvptr, probe, callx

The engine puts a marker (`@c14m<i> .`, answered `@c14m<i> nopolicy` by the driver) in front of every segment, runs the
case, cuts the output at the markers and judges:

  (I)  isolation, implementation against ITSELF: an `obs <q>` segment must print exactly what the previous `obs <q>`
       printed when everything in between acted on OTHER policies;
  (H)  handlers: an error line of <q> carries the `ALT ` prefix iff <q>'s own handler was last set to `alt`;
  (M)  model: what `@<pol> update` prints is compared with the extracted model / specification run on <registry>
       (coresuite.evaluate), as the other H1 suites do.
"""
import hashlib, json, os, re, sys
sys.path.insert(0, os.path.dirname(os.path.abspath(__file__)))
import vlib, corelib, coresuite
from corelib import LITE_SHAPES, gen_registry, run_h1, run_model, query_text, parse_obs, split_by_policy

GROUPS = [['chk', 'chk2'], ['chk', 'vec2'], ['chk', 'map2'], ['vec', 'hash'], ['chk2', 'map2', 'vec2'], ['cmap', 'cmap2']]
HOW = {'chk': 'basic_policy<.., checked_perfect_hash, vptr_vector, vectored_error>', 'chk2': 'chk::rebind<chk2>',
       'vec2': 'chk::rebind<vec2>::remove<type_hash>', 'map2': 'chk::rebind<map2>::remove<type_hash>::replace<vptr_placement, vptr_map<map2>>',
       'cmap': 'basic_policy<.., vptr_map<cmap, custom map type>, vectored_error>', 'cmap2': 'cmap::rebind<cmap2>',
       'vec': 'basic_policy<.., vptr_vector, vectored_error>', 'hash': 'basic_policy<.., fast_perfect_hash, vptr_vector, vectored_error>'}
UNREGISTERED = 50          # a class number no generated registry uses
ERR_RE = re.compile(r'(?:\berror|resolve-error) (ALT )?(?=resolution |unknown_class |hash_search |method_table |static_)')


# --------------------------------------------------------------------------- generation

def add_error_probe(rng, reg):
    """a method without definitions: every call through it is a resolution error that goes through the policy's handler"""
    used = [m['shape'] for m in reg['methods']]
    free = list(LITE_SHAPES)
    for s in used:
        if s in free: free.remove(s)
    free = [s for s in free if s.count('v') == 1]
    if free and len(reg['methods']) < 5:
        reg['methods'].append({'shape': free[0], 'vp': [rng.range(1, reg['n'])], 'defs': []})


class Inter:
    """one interleaved history over a group of policies"""
    def __init__(self, name, group, rng, thorough=False):
        self.name = name; self.group = list(group); self.rng = rng
        self.lines = ['case %s' % name, 'ids small']
        self.ops = {}; self.nobs = 0
        self.mode = rng.choice(['same_registry', 'same_registry', 'same_classes', 'independent'])
        regs = {}
        base = gen_registry(rng, shapes=LITE_SHAPES, max_classes=7, max_methods=3, max_arity=3)
        add_error_probe(rng, base)
        for p in self.group:
            if self.mode == 'same_registry':
                regs[p] = json.loads(json.dumps(base))
            elif self.mode == 'same_classes':
                r = json.loads(json.dumps(base))
                parents = {int(a): b for a, b in r['parents'].items()}
                r['methods'] = corelib.gen_methods(rng, r['n'], parents, rng.range(1, 3), LITE_SHAPES, max_arity=3)
                add_error_probe(rng, r); regs[p] = r
            else:
                r = gen_registry(rng, shapes=LITE_SHAPES, max_classes=7, max_methods=3, max_arity=3)
                add_error_probe(rng, r); regs[p] = r
        self.h = {}
        self.dirty = {}; self.handler = {}; self.updated = {}
        for p in self.group:
            self.lines.append('#= act %s reset' % p)
            self.lines.append('@%s sethandler default' % p)
            self.handler[p] = 'default'
        for p in self.group:
            h = coresuite.Hist(p, regs[p])
            self.lines.append('#= act %s register' % p)
            self.lines += h.lines
            h.lines = self.lines
            self.h[p] = h; self.dirty[p] = True; self.updated[p] = False
        order = list(self.group); rng.shuffle(order)
        for p in order:
            self.update(p)
            self.observe_all(but=None, only=p)
        nsteps = rng.range(4, 9) if not thorough else rng.range(5, 14)
        for _ in range(nsteps):
            self.step()
        self.lines.append('end')

    def count(self, k):
        self.ops[k] = self.ops.get(k, 0) + 1

    def update(self, p):
        reg = self.h[p].live_registry()
        self.lines.append('#= update %s %s' % (p, json.dumps(reg, sort_keys=True, separators=(',', ':'))))
        self.lines.append('@%s update' % p)
        self.dirty[p] = False; self.updated[p] = True

    def obs_block(self, q):
        """a function of q's registrations only: two observations of q with nothing done to q in between are the same text"""
        h = self.h[q]
        live = sorted(set(r['c'] for r in h.recs if r['live']))
        out = ['#= obs %s' % q, '@%s observe' % q]
        checked = q in corelib.CHECKED
        for c in live[:8]:
            out.append('@%s mkvptr %d' % (q, c))
        if live:
            out.append('@%s probe %d' % (q, live[-1]))
        if checked:
            out.append('@%s mkvptr %d' % (q, UNREGISTERED))
            out.append('@%s probe %d' % (q, UNREGISTERED))
            lm = [i for i, m in enumerate(h.meths) if m['live']]
            for mi in lm[:2]:
                nums = [UNREGISTERED] + [live[0] for _ in h.meths[mi]['vp'][1:]]
                out.append('@%s callx %d %s' % (q, mi, ' '.join(map(str, nums))))
        self.nobs += 1
        return out

    def observe_all(self, but, only=None):
        for q in self.group:
            if only is not None and q != only: continue
            if q == but: continue
            if self.dirty[q] or not self.updated[q]: continue
            self.lines += self.obs_block(q)

    def step(self):
        rng = self.rng
        p = rng.choice(self.group)
        r = rng.below(20)
        h = self.h[p]
        if r < 9:                       # registrations / unregistrations, then update
            self.lines.append('#= act %s mutate' % p)
            for _ in range(rng.range(1, 3)):
                self.count(h.mutate(rng))
            self.update(p); self.count('update')
            self.observe_all(but=p)
            self.observe_all(but=None, only=p)
        elif r < 12:                    # registrations left pending (p is not observed until its next update)
            self.lines.append('#= act %s mutate' % p)
            for _ in range(rng.range(1, 2)):
                self.count(h.mutate(rng))
            self.dirty[p] = True
            self.observe_all(but=p)
        elif r < 14:                    # update alone
            self.update(p); self.count('update')
            self.observe_all(but=p)
            self.observe_all(but=None, only=p)
        else:                           # error handler
            which = 'alt' if self.handler[p] == 'default' or rng.chance(1, 4) else 'default'
            self.lines.append('#= act %s sethandler' % p)
            self.lines.append('@%s sethandler %s' % (p, which))
            self.handler[p] = which; self.count('sethandler_' + which)
            self.observe_all(but=p)
            self.observe_all(but=None, only=p)

    def text(self):
        return '\n'.join(self.lines) + '\n'


# --------------------------------------------------------------------------- engine

def compile_case(text):
    """directive text -> (H1 text with markers, segments)"""
    out = []; segs = []; name = None
    cur = None
    for line in text.split('\n'):
        s = line.strip()
        if not s:
            continue
        if s.startswith('#='):
            t = s[2:].strip().split(' ', 2)
            kind = t[0]; pol = t[1] if len(t) > 1 else None
            cur = {'kind': kind, 'pol': pol, 'arg': t[2] if len(t) > 2 else '', 'lines': [], 'id': len(segs)}
            segs.append(cur)
            out.append('@c14m%d .' % cur['id'])
            continue
        if s.startswith('#'):
            continue
        if s.startswith('case '):
            name = s.split()[1]
        if s.startswith('@') and cur is not None:
            cur['lines'].append(s)
        out.append(s)
    return name, '\n'.join(out) + '\n', segs


def cut_output(lines, segs):
    """output lines of a case -> per-segment lists"""
    res = {s['id']: [] for s in segs}
    cur = None
    for l in lines:
        m = re.match(r'^@c14m(\d+) nopolicy$', l)
        if m:
            cur = int(m.group(1)); continue
        if cur is not None:
            res[cur].append(l)
    return res


def judge(text, ir, model_lines):
    """ir: run_h1 result of the compiled case; model_lines: segment id -> model output lines (update segments)"""
    name, _, segs = compile_case(text)
    fails = []; ndiff = 0; stats = {'obs_compared': 0, 'obs_lines_compared': 0, 'obs_segments': 0, 'updates': 0, 'handler_lines': 0,
                                    'tuples': 0, 'err_tuples': 0}
    out = cut_output(ir['lines'], segs)
    baseline = {}; since = {}; handler = {}
    last_seen = -1
    for s in segs:
        if out[s['id']] or s['kind'] in ('act',):
            pass
    reached = set(int(m.group(1)) for l in ir['lines'] for m in [re.match(r'^@c14m(\d+) nopolicy$', l)] if m)
    for s in segs:
        if s['id'] not in reached:
            break
        last_seen = s['id']
        q = s['pol']; lines = out[s['id']]
        for l in s['lines']:
            m = re.match(r'^@(\S+) sethandler (\S+)', l)
            if m: handler[m.group(1)] = m.group(2)
        # (H) every error line comes through the policy's own handler
        for l in lines:
            if not l.startswith('@'): continue
            pol = l.split(' ', 1)[0][1:]
            m = ERR_RE.search(l)
            if m:
                stats['handler_lines'] += 1
                alt = bool(m.group(1))
                if alt != (handler.get(pol, 'default') == 'alt'):
                    fails.append({'what': 'handler', 'segment': s['id'],
                                  'msg': 'an error of policy %s was delivered to the %s handler although %s\'s own handler is `%s` (operations on other policies since: %s): %s'
                                         % (pol, 'alternative' if alt else 'default', pol, handler.get(pol, 'default'),
                                            ', '.join(since.get(pol, [])) or 'none', l)})
        if s['kind'] == 'act':
            baseline.pop(q, None)
            for x in since: since[x].append('%s on %s' % (s['arg'] or 'act', q)) if x != q else None
        elif s['kind'] == 'update':
            baseline.pop(q, None)
            for x in since: since[x].append('update on %s' % q) if x != q else None
            stats['updates'] += 1
            reg = json.loads(s['arg'])
            own = [l.split(' ', 1)[1].replace(' ALT ', ' ') for l in lines if l.startswith('@%s ' % q)]
            iobs = parse_obs([l for l in own if ' = ' in l or len(l.split()) >= 2])
            mobs = parse_obs(model_lines.get(s['id'], []))
            ev = coresuite.evaluate(reg, q, iobs, mobs)
            stats['tuples'] += ev['tuples']; stats['err_tuples'] += ev['err_tuples']
            if ev['ndiffs']:
                ndiff += 1
            for prop in ('C01', 'C02', 'C03', 'C04'):
                for msg in ev['fail'].get(prop, [])[:1]:
                    fails.append({'what': 'dispatch', 'segment': s['id'],
                                  'msg': 'after an update of %s in the interleaved history: %s' % (q, msg)})
            if iobs.get('update') != 'ok' and mobs.get('update') == 'ok':
                fails.append({'what': 'update', 'segment': s['id'], 'msg': 'update of %s reports `%s` on a well-formed registry' % (q, iobs.get('update'))})
        elif s['kind'] == 'obs':
            stats['obs_segments'] += 1
            if q in baseline:
                stats['obs_compared'] += 1; stats['obs_lines_compared'] += len(lines)
                if lines != baseline[q]:
                    a, b = baseline[q], lines
                    k = 0
                    while k < min(len(a), len(b)) and a[k] == b[k]: k += 1
                    fails.append({'what': 'isolation', 'segment': s['id'],
                                  'msg': 'an observation of policy %s changed although only other policies were acted on (%s): before `%s`, after `%s`'
                                         % (q, ', '.join(since.get(q, [])) or '?', a[k] if k < len(a) else '<nothing>', b[k] if k < len(b) else '<nothing>')})
            baseline[q] = lines
            since[q] = []
    if ir['crashed']:
        seg = segs[last_seen] if 0 <= last_seen < len(segs) else None
        fails.append({'what': 'crash', 'segment': last_seen,
                      'msg': 'the library crashed during %s (operations on other policies since the last observation of %s: %s): %s'
                             % (('`%s %s`' % (seg['kind'], seg['pol'])) if seg else 'the case', seg['pol'] if seg else '?',
                                ', '.join(since.get(seg['pol'], [])) if seg else '', ir['stderr'][-300:].replace('\n', ' '))})
    prio = {'isolation': 0, 'handler': 1, 'crash': 2, 'update': 3, 'dispatch': 4}
    fails.sort(key=lambda f: (prio.get(f['what'], 9), f['segment']))
    return {'fails': fails, 'ndiff': ndiff, 'stats': stats, 'segments': len(segs), 'reached': last_seen + 1}


def truncate_case(text, segment):
    """the case cut after the given segment (the failing one): a shorter replay"""
    out = []; n = -1
    for line in text.split('\n'):
        s = line.strip()
        if s.startswith('#='):
            n += 1
            if n > segment: break
        if s == 'end': break
        out.append(line)
    return '\n'.join(out) + '\nend\n'


def shrink(binp, text, fail, budget=80):
    """drop whole steps (an `act` / `update` segment with the observations that follow it) that come before the failing
    segment, as long as the same kind of failure is still observed; the initial registrations and first updates stay"""
    if fail['what'] not in ('isolation', 'handler') or fail['segment'] < 0:
        return text
    text = truncate_case(text, fail['segment'])
    def blocks(t):
        head = []; bl = []
        for line in t.split('\n'):
            s = line.strip()
            if not s or s == 'end': continue
            if s.startswith('#='):
                k = s[2:].split()
                if k[0] in ('act', 'update') and not (k[0] == 'act' and k[2] in ('reset', 'register')):
                    bl.append([line]); continue
                if not bl: head.append(line)
                else: bl[-1].append(line)
                continue
            (bl[-1] if bl else head).append(line)
        return head, bl
    def still_fails(t):
        j = run_texts(binp, None, [t])[0]
        return any(f['what'] == fail['what'] for f in j['fails']) and not j['impl']['crashed']
    head, bl = blocks(text)
    # the first update of every policy belongs to the set-up
    seen = set(); fixed = 0
    for b in bl:
        k = b[0].strip()[2:].split()
        if k[0] == 'update' and k[1] not in seen:
            seen.add(k[1]); fixed += 1
        else:
            break
    i = len(bl) - 2
    while i >= fixed and budget > 0:
        cand = bl[:i] + bl[i + 1:]
        t = '\n'.join(head + [l for b in cand for l in b]) + '\nend\n'
        budget -= 1
        if still_fails(t):
            bl = cand
        i -= 1
    return '\n'.join(head + [l for b in bl for l in b]) + '\nend\n'


def run_texts(binp, mdl, texts):
    """texts: list of directive case texts; returns list of judgements (same order)"""
    comp = [compile_case(t) for t in texts]
    res = []
    B = 60
    for b0 in range(0, len(comp), B):
        batch = comp[b0:b0 + B]
        impl = run_h1(binp, ''.join(c[1] for c in batch), timeout=900)
        queries = []
        for name, _, segs in batch:
            for s in segs:
                if s['kind'] == 'update':
                    tag = '%s.%d' % (name, s['id'])
                    queries.append((tag, query_text(tag, json.loads(s['arg']))))
        model = run_model(mdl, queries, timeout=900) if (mdl and queries) else {}
        for (name, _, segs), text in zip(batch, texts[b0:b0 + B]):
            ir = impl.get(name, {'lines': [], 'crashed': True, 'stderr': 'no output'})
            ml = {s['id']: model.get('%s.%d' % (name, s['id']), []) for s in segs if s['kind'] == 'update'}
            j = judge(text, ir, ml)
            j['name'] = name; j['text'] = text; j['impl'] = ir
            res.append(j)
    return res


def load_corpus():
    d = os.path.join(vlib.VERIF, 'corpus', 'C14')
    out = []
    if os.path.isdir(d):
        for f in sorted(os.listdir(d)):
            if f.endswith('.case'):
                out.append((os.path.join('corpus', 'C14', f), open(os.path.join(d, f)).read()))
    return out


def suite(tier, seed, ncases=None, salt=0):
    """returns {'build':..., 'cases': [...], 'dist': {...}}; no caching: the run is short"""
    binp, blog = corelib.h1_binary(); mdl, mlog = corelib.model_binary()
    res = {'build': {'h1': bool(binp), 'model': bool(mdl), 'h1_log': '' if binp else blog[-1500:], 'model_log': '' if mdl else mlog[-1500:]},
           'cases': [], 'dist': {}, 'groups': {}, 'modes': {}}
    if not binp:
        return res
    rng = vlib.Rng(seed * 2750159 + 14 + salt * 7919)
    n = ncases if ncases is not None else (240 if tier == "quick" else 2400)
    texts = []; meta = []
    if salt == 0:
        for f, t in load_corpus():
            texts.append(t); meta.append({'corpus': f, 'group': sorted(set(re.findall(r'^@(\w+) ', t, re.M))), 'mode': 'corpus', 'ops': {}})
    for i in range(n):
        g = GROUPS[i % len(GROUPS)]
        it = Inter('i%d_%d' % (salt, i), g, rng, thorough=(tier == 'thorough'))
        texts.append(it.text()); meta.append({'corpus': None, 'group': g, 'mode': it.mode, 'ops': it.ops})
    js = run_texts(binp, mdl, texts)
    for j, m in zip(js, meta):
        j.update(m)
        j['hash'] = hashlib.sha1(re.sub(r'^case \S+', 'case', j['text']).encode()).hexdigest()
        j['nontrivial'] = j['stats']['obs_compared'] >= 1 and len(j['group']) >= 2
        res['cases'].append(j)
        gk = '+'.join(m['group']); res['groups'][gk] = res['groups'].get(gk, 0) + 1
        res['modes'][m['mode']] = res['modes'].get(m['mode'], 0) + 1
        for k, v in m['ops'].items():
            res['dist'][k] = res['dist'].get(k, 0) + v
    return res
