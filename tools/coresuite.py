#!/usr/bin/env python3
"""Suites run on harness H1 and shared by the core checks.  Results are cached under build/obs/ keyed by
(hash of /repo/include, hash of harness + model + generators, suite, tier, seed) so that running the twenty
quick checks in a row costs one generation pass (DESIGN.md section 11)."""
import glob, hashlib, json, os, re, sys, time
sys.path.insert(0, os.path.dirname(os.path.abspath(__file__)))
import vlib, corelib
from corelib import *


def _key(suite, tier, seed):
    srcs = [os.path.join(vlib.VERIF, p) for p in
            ['harness/h1', 'ocaml/core_driver.ml', 'tools/corelib.py', 'tools/coresuite.py', 'coq/Model', 'coq/Spec', 'corpus/core']]
    return hashlib.sha1(('%s|%s|%s|%s|%s' % (vlib.repo_hash(), vlib.tree_hash(srcs), suite, tier, seed)).encode()).hexdigest()[:24]


def cached(suite, tier, seed, compute):
    d = os.path.join(vlib.BUILD, 'obs'); os.makedirs(d, exist_ok=True)
    path = os.path.join(d, '%s-%s.json' % (suite, _key(suite, tier, seed)))
    with vlib.Lock('obs-' + suite):
        if os.path.exists(path) and not os.environ.get('VERIF_NOCACHE'):
            try:
                return json.load(open(path))
            except Exception:
                pass
        res = compute()
        # keep only the newest few cache files per suite
        old = sorted(glob.glob(os.path.join(d, suite + '-*.json')), key=os.path.getmtime)
        for f in old[:-6]:
            os.remove(f)
        with open(path + '.tmp', 'w') as f:
            json.dump(res, f)
        os.rename(path + '.tmp', path)
        return res


# --------------------------------------------------------------------------- corpus

def load_corpus(sub='core'):
    """corpus/<sub>/*.json: {'name':..., 'reg': <registry>, 'policies': [...], 'properties': [...]}"""
    out = []
    for f in sorted(glob.glob(os.path.join(vlib.VERIF, 'corpus', sub, '*.json'))):
        try:
            c = json.load(open(f)); c['file'] = os.path.relpath(f, vlib.VERIF); out.append(c)
        except Exception as e:
            vlib.log('bad corpus file %s: %s' % (f, e))
    return out


# --------------------------------------------------------------------------- evaluation of one (registry, policy, update)

def evaluate(reg, pol, impl, model):
    """impl / model: parsed observation dicts of one update. Returns {'diffs': [...], 'fail': {prop: [msg...]}}"""
    fail = {}
    def bad(prop, msg):
        fail.setdefault(prop, []).append(msg)
    slots_ok = slot_assignment(reg, shapes_of(pol))
    diffs = diff_obs(impl, model, lambda mi: mi < len(slots_ok) and slots_ok[mi])
    out = {'diffs': [list(d) for d in diffs[:20]], 'ndiffs': len(diffs), 'fail': fail, 'tuples': 0, 'err_tuples': 0}
    if model.get('update') != 'ok' or impl.get('update') != 'ok':
        # malformed registry: both must report the same unknown class (C15 evaluates that separately)
        return out
    # ---- C01 / C02: every legal tuple
    for k, sp in model.items():
        if not k.startswith('spec '):
            continue
        tup = k[5:]
        mi = int(tup.split()[0]); ids = tup.split()[1:]
        out['tuples'] += 1
        d = impl.get('disp ' + tup)
        if d is None:
            bad('C01', 'no dispatch observed for tuple %s' % tup); continue
        if d != sp:
            bad('C01' if sp.startswith('d') else 'C02', 'walk of dispatch_data for call %s gives %s, the specification says %s' % (tup, d, sp))
        r = impl.get('resolve ' + tup)
        if r is not None and r != sp:
            bad('C01' if sp.startswith('d') else 'C02', 'method::resolve for call %s gives %s, the specification says %s' % (tup, r, sp))
        c = impl.get('call ' + tup)
        if c is not None:
            if sp.startswith('d'):
                if c != 'ran ' + sp:
                    bad('C01', 'call %s: %s, the specification says definition %s runs' % (tup, c, sp))
            else:
                out['err_tuples'] += 1
                want = 'error status %d arity %d types %s' % (1 if sp == 'ni' else 2, len(ids), ' '.join(ids))
                if c != want:
                    bad('C02', 'call %s: got "%s", expected "%s"' % (tup, c, want))
        elif not sp.startswith('d'):
            out['err_tuples'] += 1
    # ---- C03: next
    for k, sp in model.items():
        if not k.startswith('specnext '):
            continue
        key = 'next ' + k[9:]
        got = impl.get(key)
        mi, di = map(int, k.split()[1:3])
        has_next = reg['methods'][mi]['defs'][di]['next']
        if got is None:
            bad('C03', 'no next observed for %s' % key); continue
        if has_next and got != sp:
            bad('C03', '%s is %s, the specification says %s' % (key, got, sp))
        if not has_next and got != 'none-registered':
            bad('C03', '%s: definition registered without next, observed %s' % (key, got))
    # ---- C04: cells and bounds, from the implementation's own dump
    img_len = None
    if 'image' in impl:
        try: img_len = int(impl['image'].split()[0])
        except ValueError: pass
    cov = {}; vt = {}
    for k, v in impl.items():
        if k.startswith('class '):
            m = re.search(r' cov((?: \d+)*)$', v)
            cov[int(k.split()[1])] = [int(x) for x in m.group(1).split()] if m else []
        elif k.startswith('vtbl '):
            m = re.match(r'first (\d+) len (\d+) entries.* vptr (-?\d+)$', v)
            if m: vt[int(k.split()[1])] = (int(m.group(1)), int(m.group(2)), int(m.group(3)))
    ss = {int(k.split()[1]): [int(x) for x in v.split()] for k, v in impl.items() if k.startswith('ss ')}
    tid2cls = {}
    for k, v in impl.items():
        if k.startswith('class '):
            m = re.match(r'tids((?: -?\d+)*) abstract', v)
            for t in (m.group(1).split() if m else []):
                tid2cls[int(t)] = int(k.split()[1])
    if img_len is not None and vt:
        per_class = {}
        for mi, m in enumerate(reg['methods']):
            for p, c in enumerate(m['vp']):
                cc = tid2cls.get(int(reg.get('alias', {}).get(str(c), c)), tid2cls.get(c))
                if cc is None or mi not in ss: continue
                for z in cov.get(cc, []):
                    per_class.setdefault(z, []).append((mi, p, ss[mi][p]))
        for z, pairs in per_class.items():
            if z not in vt: continue
            first, ln, vptr = vt[z]
            seen = {}
            for mi, p, s in pairs:
                a = vptr + s
                if not (first <= s < first + ln):
                    bad('C04', 'class %d: slot %d of (method %d, parameter %d) is outside its v-table [%d,%d)' % (z, s, mi, p, first, first + ln))
                if not (0 <= a < img_len):
                    bad('C04', 'class %d: cell of (method %d, parameter %d) at offset %d is outside dispatch_data (size %d)' % (z, mi, p, a, img_len))
                if s in seen and seen[s] != (mi, p):
                    bad('C04', 'class %d: (method %d, parameter %d) and (method %d, parameter %d) share v-table slot %d' % (z, seen[s][0], seen[s][1], mi, p, s))
                seen[s] = (mi, p)
    for k, v in impl.items():
        if k.startswith('disp ') and v == 'oob':
            bad('C04', 'call %s reads outside dispatch_data (offsets %s, size %s)' % (k[5:], impl.get('reads ' + k[5:]), img_len))
        if k.startswith('reads ') and img_len is not None:
            for a in v.split():
                if not (0 <= int(a) < img_len):
                    bad('C04', 'call %s reads offset %s outside dispatch_data (size %d)' % (k[6:], a, img_len)); break
    # ---- C17: the report
    if 'specreport' in ' '.join(model.keys()):
        sr = None
        for k, v in model.items():
            if k.startswith('specreport'):
                sr = (k + ' ' + v).split()
        if sr:
            want = {sr[i]: int(sr[i + 1]) for i in range(1, len(sr) - 1, 2)}
            rt = impl.get('report total', '').split()
            got = {rt[i]: int(rt[i + 1]) for i in range(0, len(rt) - 1, 2)} if rt else {}
            for f in ('ni', 'amb', 'cni', 'camb'):
                if f in got and (got[f] != 0) != (want[f] != 0):
                    bad('C17', 'report.%s = %d but the specification says %s tuple %s' % (f, got[f], 'some' if want[f] else 'no', 'exists' if want[f] else 'exists'))
            cells = 0
            for mi, m in enumerate(reg['methods']):
                if len(m['vp']) > 1 and ('table %d' % mi) in impl:
                    cells += len(impl['table %d' % mi].split())
            if 'cells' in got and got['cells'] != cells:
                bad('C17', 'report.cells = %d but %d multi-method dispatch cells were built' % (got['cells'], cells))
    # lookups (every registered id reaches its class's v-table): C01 / C10
    for k, v in impl.items():
        if k.startswith('lookup ') and v != 'ok':
            bad('C01', 'published v-table pointer for id %s: %s' % (k.split()[1], v))
    return out


# --------------------------------------------------------------------------- the dispatch suite

def dispatch_suite(tier, seed):
    def compute():
        t0 = time.time()
        binp, blog = corelib.h1_binary()
        mdl, mlog = corelib.model_binary()
        res = {'build': {'h1': bool(binp), 'model': bool(mdl), 'h1_log': '' if binp else blog[-1500:], 'model_log': '' if mdl else mlog[-1500:]},
               'cases': [], 'dist': {}, 'n': 0}
        if not binp or not mdl:
            return res
        rng = vlib.Rng(seed)
        items = []
        for c in load_corpus('core'):
            if 'reg' in c:
                items.append((c['name'], c['reg'], c.get('policies', ['vec', 'chk']), c.get('file')))
        nrand = 400 if tier == 'quick' else 6000
        pols_cycle = ['vec', 'hash', 'chk', 'map', 'ind', 'thr', 'bc']
        for i in range(nrand):
            pols = ['vec'] if i % 2 == 0 else [pols_cycle[(i // 2) % len(pols_cycle)]]
            reg = gen_registry(rng, shapes=shapes_of(pols[0]))
            items.append(('r%d' % i, reg, pols, None))
        # run in batches
        B = 250
        for b0 in range(0, len(items), B):
            batch = items[b0:b0 + B]
            text = ''.join(case_text(name, reg, pols) for name, reg, pols, _ in batch)
            impl = run_h1(binp, text, timeout=900)
            mres = run_model(mdl, [(name, query_text(name, reg)) for name, reg, pols, _ in batch], timeout=900)
            for name, reg, pols, cfile in batch:
                ir = impl.get(name, {'lines': [], 'crashed': True, 'stderr': 'no output'})
                model = parse_obs(mres.get(name, []))
                bypol = split_by_policy(ir['lines'])
                entry = {'name': name, 'reg': reg, 'pols': pols, 'corpus': cfile, 'hash': reg_hash(reg), 'nontrivial': is_nontrivial(reg),
                         'crashed': ir['crashed'], 'stderr': ir['stderr'][-1500:] if ir['crashed'] else '', 'results': {}}
                for p in pols:
                    iobs = parse_obs(bypol.get(p, []))
                    entry['results'][p] = evaluate(reg, p, iobs, model)
                res['cases'].append(entry)
                k = '%s/%s' % (reg.get('kind', 'corpus'), reg.get('style', '-'))
                res['dist'][k] = res['dist'].get(k, 0) + 1
        res['n'] = len(items)
        res['wall'] = time.time() - t0
        return res
    return cached('dispatch', tier, seed, compute)


def summarize(ctx, res, prop, related=()):
    """Apply the decision rule for property `prop` on a suite result. Returns coverage dict pieces."""
    if not res['build']['h1']:
        ctx.broken.append('harness H1 does not build against /repo: ' + res['build']['h1_log'][-400:])
    if not res['build']['model']:
        ctx.broken.append('model driver does not build: ' + res['build']['model_log'][-400:])
    nfail = 0; ndiff = 0; tuples = 0; err_tuples = 0
    seen = set(); nontriv = set()
    samples = []
    for e in res['cases']:
        seen.add(e['hash'])
        if e['nontrivial']: nontriv.add(e['hash'])
        if e['crashed']:
            nfail += 1
            if nfail <= 3:
                ctx.violation('the library crashes or aborts on a legal registry (case %s): %s' % (e['name'], e['stderr'][-300:].replace('\n', ' ')),
                              {'case': e['name'], 'registry': e['reg'], 'policies': e['pols'], 'stderr': e['stderr'], 'corpus_file': e['corpus']})
            continue
        for p, r in e['results'].items():
            tuples += r['tuples']; err_tuples += r['err_tuples']
            msgs = r['fail'].get(prop, [])
            if msgs:
                nfail += 1
                if nfail <= 3:
                    ctx.violation('%s (case %s, policy %s)' % (msgs[0], e['name'], p),
                                  {'case': e['name'], 'policy': p, 'registry': e['reg'], 'failures': msgs[:10], 'corpus_file': e['corpus'],
                                   'replay_case': case_text(e['name'], e['reg'], [p])})
            if r['ndiffs']:
                ndiff += 1
                if ndiff <= 3 and not msgs:
                    ctx.broken.append('correspondence: implementation and model differ on case %s policy %s: %s' % (e['name'], p, json.dumps(r['diffs'][:3])))
        if len(samples) < 3 and e['nontrivial']:
            samples.append({'records': e['reg']['records'], 'methods': e['reg']['methods']})
    if ndiff and not nfail:
        # correspondence broken, no failing input for this property among the generated cases
        ctx.notes.append('%d cases differ between model and implementation' % ndiff)
    return {'evaluations': len(res['cases']), 'distinct_nontrivial': len(nontriv), 'distinct': len(seen),
            'rule': 'registries generated by tools/corelib.gen_registry (DAG kinds x presentation styles, see input_distribution) + corpus/core; '
                    'distinct by sha1 of (records, methods); non-trivial = has a class with >= 2 direct bases or a method with >= 2 definitions',
            'samples': samples, 'input_distribution': res['dist'], 'legal_tuples_checked': tuples, 'erroring_tuples': err_tuples,
            'cases_with_model_impl_difference': ndiff, 'cases_failing_property': nfail, 'suite_wall_s': round(res.get('wall', 0), 1)}


# --------------------------------------------------------------------------- canonical user-visible observations

def user_view(reg, impl, mmap=None, dmap=None):
    """what a user can observe: per (method, tuple) the outcome, per definition its next; indexes mapped back to a
    reference numbering (mmap: method index -> reference index; dmap[mi]: definition index -> reference index)"""
    mmap = mmap or {}; dmap = dmap or {}
    def dname(mi, v):
        m = re.match(r'^(ran )?d(\d+)$', v)
        if m:
            return (m.group(1) or '') + 'd%d' % dmap.get(mi, {}).get(int(m.group(2)), int(m.group(2)))
        return v
    out = {}
    for k, v in impl.items():
        t = k.split()
        if t[0] in ('disp', 'call', 'resolve'):
            mi = int(t[1])
            out['%s %d %s' % (t[0], mmap.get(mi, mi), ' '.join(t[2:]))] = dname(mi, v)
        elif t[0] == 'next':
            mi = int(t[1]); di = int(t[2])
            out['next %d %d' % (mmap.get(mi, mi), dmap.get(mi, {}).get(di, di))] = dname(mi, v)
        elif t[0] == 'update':
            out['update'] = v
    return out


def permute_registry(rng, reg):
    """same registrations in another order: records, methods and each method's definitions shuffled"""
    recs = list(reg['records']); rng.shuffle(recs)
    mi_new = list(range(len(reg['methods']))); rng.shuffle(mi_new)     # new position -> old index
    ms = []; dmap = {}
    for newi, oldi in enumerate(mi_new):
        m = reg['methods'][oldi]
        di_new = list(range(len(m['defs']))); rng.shuffle(di_new)
        ms.append({'shape': m['shape'], 'vp': m['vp'], 'defs': [m['defs'][j] for j in di_new]})
        dmap[newi] = {newj: oldj for newj, oldj in enumerate(di_new)}
    r2 = dict(reg); r2['records'] = recs; r2['methods'] = ms
    return r2, {newi: oldi for newi, oldi in enumerate(mi_new)}, dmap


def all_permutations_small(reg, limit=24):
    """every order of records x definitions of the first method, when small enough (thorough tier)"""
    import itertools
    out = []
    recs = reg['records']
    if len(recs) > 4 or not reg['methods'] or len(reg['methods'][0]['defs']) > 3:
        return out
    for rp in itertools.permutations(range(len(recs))):
        for dp in itertools.permutations(range(len(reg['methods'][0]['defs']))):
            r2 = dict(reg); r2['records'] = [recs[i] for i in rp]
            m0 = reg['methods'][0]
            r2['methods'] = [{'shape': m0['shape'], 'vp': m0['vp'], 'defs': [m0['defs'][j] for j in dp]}] + reg['methods'][1:]
            out.append((r2, {}, {0: {nj: oj for nj, oj in enumerate(dp)}}))
            if len(out) >= limit:
                return out
    return out


def _run_variants(binp, mdl, groups, pol_of):
    """groups: list of (name, [variant registries]); runs every variant as its own case; returns name -> [parsed impl obs], [parsed model obs]"""
    text = []; queries = []
    for name, variants in groups:
        for vi, reg in enumerate(variants):
            p = pol_of(name, vi)
            text.append(case_text('%s.%d' % (name, vi), reg, [p]))
            queries.append(('%s.%d' % (name, vi), query_text('%s.%d' % (name, vi), reg)))
    impl = {}; model = {}
    B = 300
    for b0 in range(0, len(text), B):
        impl.update(run_h1(binp, ''.join(text[b0:b0 + B]), timeout=900))
        model.update(run_model(mdl, queries[b0:b0 + B], timeout=900))
    return impl, model


def perm_suite(tier, seed):
    """C06: each registry registered in several orders; user-visible observations compared ACROSS orders directly"""
    def compute():
        t0 = time.time()
        binp, blog = corelib.h1_binary(); mdl, mlog = corelib.model_binary()
        res = {'build': {'h1': bool(binp), 'model': bool(mdl), 'h1_log': '' if binp else blog[-1500:], 'model_log': '' if mdl else mlog[-1500:]},
               'cases': [], 'dist': {}, 'n': 0}
        if not binp or not mdl:
            return res
        rng = vlib.Rng(seed * 7919 + 6)
        n = 150 if tier == 'quick' else 1500
        groups = []; maps = {}
        for c in load_corpus('core'):
            if 'reg' in c and 'C06' in c.get('properties', []):
                vs = [(c['reg'], {}, {})] + [permute_registry(rng, c['reg']) for _ in range(4)]
                if c.get('reversed_defs'):
                    r2 = dict(c['reg']); m0 = c['reg']['methods'][0]; nd = len(m0['defs'])
                    r2['methods'] = [{'shape': m0['shape'], 'vp': m0['vp'], 'defs': list(reversed(m0['defs']))}] + c['reg']['methods'][1:]
                    vs.append((r2, {}, {0: {j: nd - 1 - j for j in range(nd)}}))
                groups.append((c['name'], [v[0] for v in vs])); maps[c['name']] = vs
        for i in range(n):
            small = (tier == 'thorough' and i % 5 == 0)
            reg = gen_registry(rng, shapes=FULL_SHAPES, max_classes=4 if small else 9, max_methods=1 if small else 3)
            vs = [(reg, {}, {})]
            if small:
                vs += all_permutations_small(reg)
            k = 4 if tier == 'quick' else 6
            vs += [permute_registry(rng, reg) for _ in range(k)]
            name = 'p%d' % i
            groups.append((name, [v[0] for v in vs])); maps[name] = vs
        pols = ['vec', 'chk', 'vec', 'hash', 'vec', 'map']
        pol_of = lambda name, vi: pols[int(name[1:]) % len(pols)] if re.match(r'^p\d+$', name) else 'vec'
        impl, model = _run_variants(binp, mdl, groups, pol_of)
        for name, variants in groups:
            views = []; crashed = False; fails = []; ndiff = 0
            for vi, reg in enumerate(variants):
                key = '%s.%d' % (name, vi)
                ir = impl.get(key, {'lines': [], 'crashed': True, 'stderr': 'no output'})
                if ir['crashed']:
                    crashed = True; fails.append('order %d: the library crashed: %s' % (vi, ir['stderr'][-300:])); continue
                p = pol_of(name, vi)
                iobs = parse_obs(split_by_policy(ir['lines']).get(p, []))
                ev = evaluate(reg, p, iobs, parse_obs(model.get(key, [])))
                ndiff += 1 if ev['ndiffs'] else 0
                _, mmap, dmap = maps[name][vi]
                views.append((vi, user_view(reg, iobs, mmap, dmap)))
            fv = None
            if views:
                v0i, v0 = views[0]
                for vi, v in views[1:]:
                    for k in sorted(set(v0) | set(v)):
                        if v0.get(k) != v.get(k):
                            fails.append('registration order %d vs order %d: %s is %s vs %s' % (v0i, vi, k, v0.get(k), v.get(k)))
                            if fv is None: fv = variants[vi]
                            break
            res['cases'].append({'name': name, 'reg': variants[0], 'orders': len(variants), 'hash': reg_hash(variants[0]), 'nontrivial': is_nontrivial(variants[0]),
                                 'fails': fails[:5], 'ndiffs': ndiff, 'failing_variant': fv})
            res['dist'][variants[0].get('kind', 'corpus')] = res['dist'].get(variants[0].get('kind', 'corpus'), 0) + 1
        res['n'] = sum(len(v) for _, v in groups)
        res['wall'] = time.time() - t0
        return res
    return cached('perm', tier, seed, compute)


def summarize_groups(ctx, res, what):
    """decision rule for the cross-variant suites (perm, presentations, rtti, history)"""
    if not res['build']['h1']:
        ctx.broken.append('harness H1 does not build against /repo: ' + res['build']['h1_log'][-400:])
    if not res['build']['model']:
        ctx.broken.append('model driver does not build: ' + res['build']['model_log'][-400:])
    nfail = 0; ndiff = 0; nontriv = set(); samples = []
    for e in res['cases']:
        if e['nontrivial']: nontriv.add(e['hash'])
        if e['fails']:
            nfail += 1
            if nfail <= 3:
                ctx.violation('%s (case %s)' % (e['fails'][0], e['name']),
                              {'case': e['name'], 'registry': e['reg'], 'other_variant': e.get('failing_variant'), 'failures': e['fails'],
                               'replay_case': case_text(e['name'], e['reg'], ['vec']) + (case_text(e['name'] + '.b', e['failing_variant'], ['vec']) if e.get('failing_variant') else '')})
        if e.get('ndiffs'):
            ndiff += 1
            if ndiff <= 2 and not e['fails']:
                ctx.broken.append('correspondence: implementation and model differ on a variant of case %s' % e['name'])
        if len(samples) < 2 and e['nontrivial']:
            samples.append({'records': e['reg']['records'], 'methods': e['reg']['methods'], what: e.get('orders')})
    return {'evaluations': res['n'], 'distinct_nontrivial': len(nontriv), 'groups': len(res['cases']),
            'rule': 'each generated registry (tools/corelib.gen_registry) is run in several %s; evaluations counts registry variants run; distinct_nontrivial counts distinct base registries '
                    '(sha1 of records+methods) with a class having >= 2 direct bases or a method with >= 2 definitions' % what,
            'samples': samples, 'input_distribution': res['dist'], 'groups_failing_property': nfail, 'groups_with_model_impl_difference': ndiff,
            'suite_wall_s': round(res.get('wall', 0), 1)}
