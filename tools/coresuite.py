#!/usr/bin/env python3
"""Suites run on harness H1 and shared by the core checks.  Results are cached under build/obs/ keyed by
(hash of /repo/include, hash of harness + model + generators, suite, tier, seed) so that running the twenty
quick checks in a row costs one generation pass (DESIGN.md section 11)."""
import glob, hashlib, json, os, re, sys, time
sys.path.insert(0, os.path.dirname(os.path.abspath(__file__)))
import vlib, corelib
from corelib import *


def _key(suite, tier, seed):
    srcs = [os.path.join(vlib.VERIF, p) for p in
            ['harness/h1', 'ocaml/core_driver.ml', 'tools/corelib.py', 'tools/coresuite.py', 'coq/Model', 'coq/Spec', 'corpus/core']]
    return hashlib.sha1(('%s|%s|%s|%s|%s' % (vlib.repo_hash(), vlib.tree_hash(srcs), suite, tier, seed)).encode()).hexdigest()[:24]


def cached(suite, tier, seed, compute):
    d = os.path.join(vlib.BUILD, 'obs'); os.makedirs(d, exist_ok=True)
    path = os.path.join(d, '%s-%s.json' % (suite, _key(suite, tier, seed)))
    with vlib.Lock('obs-' + suite):
        if os.path.exists(path) and not os.environ.get('VERIF_NOCACHE'):
            try:
                return json.load(open(path))
            except Exception:
                pass
        res = compute()
        # keep only the newest few cache files per suite
        old = sorted(glob.glob(os.path.join(d, suite + '-*.json')), key=os.path.getmtime)
        for f in old[:-6]:
            os.remove(f)
        with open(path + '.tmp', 'w') as f:
            json.dump(res, f)
        os.rename(path + '.tmp', path)
        return res


# --------------------------------------------------------------------------- corpus

def load_corpus(sub='core'):
    """corpus/<sub>/*.json: {'name':..., 'reg': <registry>, 'policies': [...], 'properties': [...]}"""
    out = []
    for f in sorted(glob.glob(os.path.join(vlib.VERIF, 'corpus', sub, '*.json'))):
        try:
            c = json.load(open(f)); c['file'] = os.path.relpath(f, vlib.VERIF); out.append(c)
        except Exception as e:
            vlib.log('bad corpus file %s: %s' % (f, e))
    return out


# --------------------------------------------------------------------------- evaluation of one (registry, policy, update)

def evaluate(reg, pol, impl, model):
    """impl / model: parsed observation dicts of one update. Returns {'diffs': [...], 'fail': {prop: [msg...]}}"""
    fail = {}
    def bad(prop, msg):
        fail.setdefault(prop, []).append(msg)
    slots_ok = slot_assignment(reg, shapes_of(pol))
    diffs = diff_obs(impl, model, lambda mi: mi < len(slots_ok) and slots_ok[mi])
    out = {'diffs': [list(d) for d in diffs[:20]], 'ndiffs': len(diffs), 'fail': fail, 'tuples': 0, 'err_tuples': 0}
    if model.get('update') != 'ok' or impl.get('update') != 'ok':
        # malformed registry: both must report the same unknown class (C15 evaluates that separately)
        return out
    # ---- C01 / C02: every legal tuple
    for k, sp in model.items():
        if not k.startswith('spec '):
            continue
        tup = k[5:]
        mi = int(tup.split()[0]); ids = tup.split()[1:]
        out['tuples'] += 1
        d = impl.get('disp ' + tup)
        if d is None:
            bad('C01', 'no dispatch observed for tuple %s' % tup); continue
        def blame(got):
            # a definition that runs must be the dominating one (C01); an unresolvable call must not be dispatched and
            # must be reported with the right status (C02)
            ps = []
            if got.startswith('d') or sp.startswith('d'): ps.append('C01')
            if not sp.startswith('d'): ps.append('C02')
            return ps
        if d != sp:
            for pp in blame(d): bad(pp, 'walk of dispatch_data for call %s gives %s, the specification says %s' % (tup, d, sp))
        r = impl.get('resolve ' + tup)
        if r is not None and r != sp:
            for pp in blame(r): bad(pp, 'method::resolve for call %s gives %s, the specification says %s' % (tup, r, sp))
        c = impl.get('call ' + tup)
        if c is not None:
            if sp.startswith('d'):
                if c != 'ran ' + sp:
                    bad('C01', 'call %s: %s, the specification says definition %s runs' % (tup, c, sp))
            else:
                out['err_tuples'] += 1
                want = 'error status %d arity %d types %s' % (1 if sp == 'ni' else 2, len(ids), ' '.join(ids))
                if c != want:
                    bad('C02', 'call %s: got "%s", expected "%s"' % (tup, c, want))
                    if c.startswith('ran '):
                        bad('C01', 'call %s: %s although no applicable definition is more specific than all the others (%s)' % (tup, c, sp))
        elif not sp.startswith('d'):
            out['err_tuples'] += 1
    # ---- C03: next
    for k, sp in model.items():
        if not k.startswith('specnext '):
            continue
        key = 'next ' + k[9:]
        got = impl.get(key)
        mi, di = map(int, k.split()[1:3])
        has_next = reg['methods'][mi]['defs'][di]['next']
        if got is None:
            bad('C03', 'no next observed for %s' % key); continue
        if has_next and got != sp:
            bad('C03', '%s is %s, the specification says %s' % (key, got, sp))
        if not has_next and got != 'none-registered':
            bad('C03', '%s: definition registered without next, observed %s' % (key, got))
    # ---- C04: cells and bounds, from the implementation's own dump
    img_len = None
    if 'image' in impl:
        try: img_len = int(impl['image'].split()[0])
        except ValueError: pass
    cov = {}; vt = {}
    for k, v in impl.items():
        if k.startswith('class '):
            m = re.search(r' cov((?: \d+)*)$', v)
            cov[int(k.split()[1])] = [int(x) for x in m.group(1).split()] if m else []
        elif k.startswith('vtbl '):
            m = re.match(r'first (\d+) len (\d+) entries.* vptr (-?\d+)$', v)
            if m: vt[int(k.split()[1])] = (int(m.group(1)), int(m.group(2)), int(m.group(3)))
    ss = {int(k.split()[1]): [int(x) for x in v.split()] for k, v in impl.items() if k.startswith('ss ')}
    tid2cls = {}
    for k, v in impl.items():
        if k.startswith('class '):
            m = re.match(r'tids((?: -?\d+)*) abstract', v)
            for t in (m.group(1).split() if m else []):
                tid2cls[int(t)] = int(k.split()[1])
    if img_len is not None and vt:
        per_class = {}
        for mi, m in enumerate(reg['methods']):
            for p, c in enumerate(m['vp']):
                cc = tid2cls.get(int(reg.get('alias', {}).get(str(c), c)), tid2cls.get(c))
                if cc is None or mi not in ss: continue
                for z in cov.get(cc, []):
                    per_class.setdefault(z, []).append((mi, p, ss[mi][p]))
        for z, pairs in per_class.items():
            if z not in vt: continue
            first, ln, vptr = vt[z]
            seen = {}
            for mi, p, s in pairs:
                a = vptr + s
                if not (first <= s < first + ln):
                    bad('C04', 'class %d: slot %d of (method %d, parameter %d) is outside its v-table [%d,%d)' % (z, s, mi, p, first, first + ln))
                if not (0 <= a < img_len):
                    bad('C04', 'class %d: cell of (method %d, parameter %d) at offset %d is outside dispatch_data (size %d)' % (z, mi, p, a, img_len))
                if s in seen and seen[s] != (mi, p):
                    bad('C04', 'class %d: (method %d, parameter %d) and (method %d, parameter %d) share v-table slot %d' % (z, seen[s][0], seen[s][1], mi, p, s))
                seen[s] = (mi, p)
    for k, v in impl.items():
        if k.startswith('disp ') and v == 'oob':
            bad('C04', 'call %s reads outside dispatch_data (offsets %s, size %s)' % (k[5:], impl.get('reads ' + k[5:]), img_len))
        if k.startswith('reads ') and img_len is not None:
            for a in v.split():
                if not (0 <= int(a) < img_len):
                    bad('C04', 'call %s reads offset %s outside dispatch_data (size %d)' % (k[6:], a, img_len)); break
    # ---- C17: the report
    if 'specreport' in ' '.join(model.keys()):
        sr = None
        for k, v in model.items():
            if k.startswith('specreport'):
                sr = (k + ' ' + v).split()
        if sr:
            want = {sr[i]: int(sr[i + 1]) for i in range(1, len(sr) - 1, 2)}
            rt = impl.get('report total', '').split()
            got = {rt[i]: int(rt[i + 1]) for i in range(0, len(rt) - 1, 2)} if rt else {}
            for f in ('ni', 'amb', 'cni', 'camb'):
                if f in got and (got[f] != 0) != (want[f] != 0):
                    bad('C17', 'report.%s = %d but the specification says %s tuple %s' % (f, got[f], 'some' if want[f] else 'no', 'exists' if want[f] else 'exists'))
            cells = 0
            for mi, m in enumerate(reg['methods']):
                if len(m['vp']) > 1 and ('table %d' % mi) in impl:
                    cells += len(impl['table %d' % mi].split())
            if 'cells' in got and got['cells'] != cells:
                bad('C17', 'report.cells = %d but %d multi-method dispatch cells were built' % (got['cells'], cells))
    # lookups (every registered id reaches its class's v-table): C01 / C10
    for k, v in impl.items():
        if k.startswith('lookup ') and v != 'ok':
            bad('C01', 'published v-table pointer for id %s: %s' % (k.split()[1], v))
        # virtual_ptr made from a base reference, and (indirect policies) virtual_ptrs kept across the update: C09
        if k.startswith('vptr ') and v != 'ok':
            bad('C09', 'virtual_ptr made from a reference to an object of id %s does not carry its class\'s v-table pointer: %s' % (k.split()[1], v))
            bad('C01', 'virtual_ptr made from a reference to an object of id %s does not carry its class\'s v-table pointer: %s' % (k.split()[1], v))
        if k.startswith('keptvptr ') and v != 'ok':
            bad('C09', 'a virtual_ptr (indirect policy) created before the update no longer gives the v-table of its class (id %s): %s' % (k.split()[1], v))
    return out


# --------------------------------------------------------------------------- the dispatch suite

def dispatch_suite(tier, seed):
    def compute():
        t0 = time.time()
        binp, blog = corelib.h1_binary()
        mdl, mlog = corelib.model_binary()
        res = {'build': {'h1': bool(binp), 'model': bool(mdl), 'h1_log': '' if binp else blog[-1500:], 'model_log': '' if mdl else mlog[-1500:]},
               'cases': [], 'dist': {}, 'n': 0}
        if not binp or not mdl:
            return res
        rng = vlib.Rng(seed)
        items = []
        for c in load_corpus('core'):
            if 'reg' in c:
                items.append((c['name'], c['reg'], c.get('policies', ['vec', 'chk']), c.get('file')))
        if tier == 'thorough':
            # exhaustive small scope: every DAG on <= 3 classes x every bi-method (vp pair) x every set of <= 2 definitions,
            # and every DAG on 4 classes x every uni-method x every set of <= 3 definitions (complete base lists)
            import itertools
            def dags(n):
                pairs = [(i, j) for j in range(1, n + 1) for i in range(1, j)]
                for mask in range(1 << len(pairs)):
                    yield {j: [i for k, (i, jj) in enumerate(pairs) if jj == j and mask >> k & 1] for j in range(1, n + 1)}
            ex = 0
            for n in (1, 2, 3):
                for par in dags(n):
                    anc = ancestors(par, n)
                    recs = [[c, 0, sorted(anc[c])] for c in range(1, n + 1)]
                    for vp in itertools.product(range(1, n + 1), repeat=2):
                        cand = [(a, b) for a in range(1, n + 1) if vp[0] in anc[a] for b in range(1, n + 1) if vp[1] in anc[b]]
                        for k in range(0, 3):
                            for ds in itertools.combinations(cand, k):
                                reg = {'n': n, 'parents': {str(c): par[c] for c in par}, 'abstract': [], 'records': recs, 'alias': {}, 'kind': 'exhaustive', 'style': 'full',
                                       'methods': [{'shape': 'vv', 'vp': list(vp), 'defs': [{'vp': list(d), 'next': 1} for d in ds]}]}
                                items.append(('x%d' % ex, reg, ['vec'], None)); ex += 1
            for par in dags(4):
                anc = ancestors(par, 4)
                recs = [[c, 0, sorted(anc[c])] for c in range(1, 5)]
                for vp in range(1, 5):
                    cand = [a for a in range(1, 5) if vp in anc[a]]
                    for k in range(0, 4):
                        for ds in itertools.combinations(cand, k):
                            reg = {'n': 4, 'parents': {str(c): par[c] for c in par}, 'abstract': [], 'records': recs, 'alias': {}, 'kind': 'exhaustive', 'style': 'full',
                                   'methods': [{'shape': 'v', 'vp': [vp], 'defs': [{'vp': [d], 'next': 1} for d in ds]}]}
                            items.append(('x%d' % ex, reg, ['vec'], None)); ex += 1
            res['exhaustive_small_scope'] = ex
        nrand = 400 if tier == 'quick' else 6000
        pols_cycle = ['vec', 'hash', 'chk', 'map', 'ind', 'thr', 'bc']
        for i in range(nrand):
            pols = ['vec'] if i % 2 == 0 else [pols_cycle[(i // 2) % len(pols_cycle)]]
            reg = gen_registry(rng, shapes=shapes_of(pols[0]))
            items.append(('r%d' % i, reg, pols, None))
        # run in batches
        B = 250
        for b0 in range(0, len(items), B):
            batch = items[b0:b0 + B]
            text = ''.join(case_text(name, reg, pols) for name, reg, pols, _ in batch)
            impl = run_h1(binp, text, timeout=900)
            mres = run_model(mdl, [(name, query_text(name, reg)) for name, reg, pols, _ in batch], timeout=900)
            for name, reg, pols, cfile in batch:
                ir = impl.get(name, {'lines': [], 'crashed': True, 'stderr': 'no output'})
                model = parse_obs(mres.get(name, []))
                bypol = split_by_policy(ir['lines'])
                entry = {'name': name, 'reg': reg, 'pols': pols, 'corpus': cfile, 'hash': reg_hash(reg), 'nontrivial': is_nontrivial(reg),
                         'crashed': ir['crashed'], 'stderr': ir['stderr'][-1500:] if ir['crashed'] else '', 'results': {}}
                for p in pols:
                    iobs = parse_obs(bypol.get(p, []))
                    entry['results'][p] = evaluate(reg, p, iobs, model)
                res['cases'].append(entry)
                k = '%s/%s' % (reg.get('kind', 'corpus'), reg.get('style', '-'))
                res['dist'][k] = res['dist'].get(k, 0) + 1
                # what the proofs split on: allocator (tree / lattice), arity, shapes with non-virtual parameters, error cells
                d2 = res.setdefault('dist2', {})
                mi = any(len(v) > 1 for v in reg['parents'].values())
                d2['lattice allocator (some class has >= 2 direct bases)' if mi else 'tree allocator only'] = d2.get('lattice allocator (some class has >= 2 direct bases)' if mi else 'tree allocator only', 0) + 1
                for m in reg['methods']:
                    kk = 'methods of arity %d' % len(m['vp']); d2[kk] = d2.get(kk, 0) + 1
                    if 'n' in m['shape']: d2['methods with non-virtual parameters'] = d2.get('methods with non-virtual parameters', 0) + 1
                    kk = 'methods with %s definitions' % (len(m['defs']) if len(m['defs']) < 4 else '>= 4'); d2[kk] = d2.get(kk, 0) + 1
                for pp in pols: d2['policy ' + pp] = d2.get('policy ' + pp, 0) + 1
        res['n'] = len(items)
        res['wall'] = time.time() - t0
        return res
    return cached('dispatch', tier, seed, compute)


def summarize(ctx, res, prop, related=()):
    """Apply the decision rule for property `prop` on a suite result. Returns coverage dict pieces."""
    if not res['build']['h1']:
        ctx.broken.append('harness H1 does not build against /repo: ' + res['build']['h1_log'][-400:])
    if not res['build']['model']:
        ctx.broken.append('model driver does not build: ' + res['build']['model_log'][-400:])
    nfail = 0; ndiff = 0; tuples = 0; err_tuples = 0
    seen = set(); nontriv = set()
    samples = []
    for e in res['cases']:
        seen.add(e['hash'])
        if e['nontrivial']: nontriv.add(e['hash'])
        if e['crashed']:
            nfail += 1
            if nfail <= 3:
                ctx.violation('the library crashes or aborts on a legal registry (case %s): %s' % (e['name'], e['stderr'][-300:].replace('\n', ' ')),
                              {'case': e['name'], 'registry': e['reg'], 'policies': e['pols'], 'stderr': e['stderr'], 'corpus_file': e['corpus']})
            continue
        for p, r in e['results'].items():
            tuples += r['tuples']; err_tuples += r['err_tuples']
            msgs = r['fail'].get(prop, [])
            if msgs:
                nfail += 1
                if nfail <= 3:
                    small = shrink_registry(e['reg'], p, prop) if nfail == 1 else e['reg']
                    ctx.violation('%s (case %s, policy %s)' % (msgs[0], e['name'], p),
                                  {'case': e['name'], 'policy': p, 'registry': e['reg'], 'failures': msgs[:10], 'corpus_file': e['corpus'],
                                   'shrunk_registry': small, 'replay_case': case_text(e['name'], small, [p]),
                                   'original_case': case_text(e['name'], e['reg'], [p])})
            if r['ndiffs']:
                ndiff += 1
                if ndiff <= 3 and not msgs:
                    ctx.broken.append('correspondence: implementation and model differ on case %s policy %s: %s' % (e['name'], p, json.dumps(r['diffs'][:3])))
        if len(samples) < 3 and e['nontrivial']:
            samples.append({'records': e['reg']['records'], 'methods': e['reg']['methods']})
    if ndiff and not nfail:
        # correspondence broken, no failing input for this property among the generated cases
        ctx.notes.append('%d cases differ between model and implementation' % ndiff)
    return {'evaluations': len(res['cases']), 'distinct_nontrivial': len(nontriv), 'distinct': len(seen),
            'rule': 'registries generated by tools/corelib.gen_registry (DAG kinds x presentation styles, see input_distribution) + corpus/core; '
                    'distinct by sha1 of (records, methods); non-trivial = has a class with >= 2 direct bases or a method with >= 2 definitions',
            'samples': samples, 'input_distribution': res['dist'], 'input_distribution_by_proof_case': res.get('dist2', {}),
            'legal_tuples_checked': tuples, 'erroring_tuples': err_tuples,
            'cases_with_model_impl_difference': ndiff, 'cases_failing_property': nfail, 'suite_wall_s': round(res.get('wall', 0), 1),
            'exhaustive_small_scope_registries': res.get('exhaustive_small_scope', 0)}


# --------------------------------------------------------------------------- canonical user-visible observations

def user_view(reg, impl, mmap=None, dmap=None):
    """what a user can observe: per (method, tuple) the outcome, per definition its next; indexes mapped back to a
    reference numbering (mmap: method index -> reference index; dmap[mi]: definition index -> reference index)"""
    mmap = mmap or {}; dmap = dmap or {}
    def dname(mi, v):
        m = re.match(r'^(ran )?d(\d+)$', v)
        if m:
            return (m.group(1) or '') + 'd%d' % dmap.get(mi, {}).get(int(m.group(2)), int(m.group(2)))
        return v
    out = {}
    for k, v in impl.items():
        t = k.split()
        if t[0] in ('disp', 'call', 'resolve'):
            mi = int(t[1])
            out['%s %d %s' % (t[0], mmap.get(mi, mi), ' '.join(t[2:]))] = dname(mi, v)
        elif t[0] == 'next':
            mi = int(t[1]); di = int(t[2])
            out['next %d %d' % (mmap.get(mi, mi), dmap.get(mi, {}).get(di, di))] = dname(mi, v)
        elif t[0] == 'update':
            out['update'] = v
    return out


def permute_registry(rng, reg):
    """same registrations in another order: records, methods and each method's definitions shuffled"""
    recs = list(reg['records']); rng.shuffle(recs)
    mi_new = list(range(len(reg['methods']))); rng.shuffle(mi_new)     # new position -> old index
    ms = []; dmap = {}
    for newi, oldi in enumerate(mi_new):
        m = reg['methods'][oldi]
        di_new = list(range(len(m['defs']))); rng.shuffle(di_new)
        ms.append({'shape': m['shape'], 'vp': m['vp'], 'defs': [m['defs'][j] for j in di_new]})
        dmap[newi] = {newj: oldj for newj, oldj in enumerate(di_new)}
    r2 = dict(reg); r2['records'] = recs; r2['methods'] = ms
    return r2, {newi: oldi for newi, oldi in enumerate(mi_new)}, dmap


def all_permutations_small(reg, limit=24):
    """every order of records x definitions of the first method, when small enough (thorough tier)"""
    import itertools
    out = []
    recs = reg['records']
    if len(recs) > 4 or not reg['methods'] or len(reg['methods'][0]['defs']) > 3:
        return out
    for rp in itertools.permutations(range(len(recs))):
        for dp in itertools.permutations(range(len(reg['methods'][0]['defs']))):
            r2 = dict(reg); r2['records'] = [recs[i] for i in rp]
            m0 = reg['methods'][0]
            r2['methods'] = [{'shape': m0['shape'], 'vp': m0['vp'], 'defs': [m0['defs'][j] for j in dp]}] + reg['methods'][1:]
            out.append((r2, {}, {0: {nj: oj for nj, oj in enumerate(dp)}}))
            if len(out) >= limit:
                return out
    return out


def _run_variants(binp, mdl, groups, pol_of):
    """groups: list of (name, [variant registries]); runs every variant as its own case; returns name -> [parsed impl obs], [parsed model obs]"""
    text = []; queries = []
    for name, variants in groups:
        for vi, reg in enumerate(variants):
            p = pol_of(name, vi)
            text.append(case_text('%s.%d' % (name, vi), reg, [p]))
            queries.append(('%s.%d' % (name, vi), query_text('%s.%d' % (name, vi), reg)))
    impl = {}; model = {}
    B = 300
    for b0 in range(0, len(text), B):
        impl.update(run_h1(binp, ''.join(text[b0:b0 + B]), timeout=900))
        model.update(run_model(mdl, queries[b0:b0 + B], timeout=900))
    return impl, model


def perm_suite(tier, seed):
    """C06: each registry registered in several orders; user-visible observations compared ACROSS orders directly"""
    def compute():
        t0 = time.time()
        binp, blog = corelib.h1_binary(); mdl, mlog = corelib.model_binary()
        res = {'build': {'h1': bool(binp), 'model': bool(mdl), 'h1_log': '' if binp else blog[-1500:], 'model_log': '' if mdl else mlog[-1500:]},
               'cases': [], 'dist': {}, 'n': 0}
        if not binp or not mdl:
            return res
        rng = vlib.Rng(seed * 7919 + 6)
        n = 150 if tier == 'quick' else 1500
        groups = []; maps = {}
        for c in load_corpus('core'):
            if 'reg' in c and 'C06' in c.get('properties', []):
                vs = [(c['reg'], {}, {})] + [permute_registry(rng, c['reg']) for _ in range(4)]
                if c.get('reversed_defs'):
                    r2 = dict(c['reg']); m0 = c['reg']['methods'][0]; nd = len(m0['defs'])
                    r2['methods'] = [{'shape': m0['shape'], 'vp': m0['vp'], 'defs': list(reversed(m0['defs']))}] + c['reg']['methods'][1:]
                    vs.append((r2, {}, {0: {j: nd - 1 - j for j in range(nd)}}))
                groups.append((c['name'], [v[0] for v in vs])); maps[c['name']] = vs
        for i in range(n):
            small = (tier == 'thorough' and i % 5 == 0)
            reg = gen_registry(rng, shapes=FULL_SHAPES, max_classes=4 if small else 9, max_methods=1 if small else 3)
            vs = [(reg, {}, {})]
            if small:
                vs += all_permutations_small(reg)
            k = 4 if tier == 'quick' else 6
            vs += [permute_registry(rng, reg) for _ in range(k)]
            name = 'p%d' % i
            groups.append((name, [v[0] for v in vs])); maps[name] = vs
        pols = ['vec', 'chk', 'vec', 'hash', 'vec', 'map']
        pol_of = lambda name, vi: pols[int(name[1:]) % len(pols)] if re.match(r'^p\d+$', name) else 'vec'
        impl, model = _run_variants(binp, mdl, groups, pol_of)
        for name, variants in groups:
            views = []; crashed = False; fails = []; ndiff = 0
            for vi, reg in enumerate(variants):
                key = '%s.%d' % (name, vi)
                ir = impl.get(key, {'lines': [], 'crashed': True, 'stderr': 'no output'})
                if ir['crashed']:
                    crashed = True; fails.append('order %d: the library crashed: %s' % (vi, ir['stderr'][-300:])); continue
                p = pol_of(name, vi)
                iobs = parse_obs(split_by_policy(ir['lines']).get(p, []))
                ev = evaluate(reg, p, iobs, parse_obs(model.get(key, [])))
                ndiff += 1 if ev['ndiffs'] else 0
                _, mmap, dmap = maps[name][vi]
                views.append((vi, user_view(reg, iobs, mmap, dmap)))
            fv = None
            if views:
                v0i, v0 = views[0]
                for vi, v in views[1:]:
                    for k in sorted(set(v0) | set(v)):
                        # real calls exist only for the methods that got a real method<> in the driver, which depends on
                        # the order of the method catalog; the walk ('disp') and 'next' lines exist for every method
                        if k.startswith(('call ', 'resolve ')) and (k not in v0 or k not in v):
                            continue
                        if v0.get(k) != v.get(k):
                            fails.append('registration order %d vs order %d: %s is %s vs %s' % (v0i, vi, k, v0.get(k), v.get(k)))
                            if fv is None: fv = variants[vi]
                            break
            res['cases'].append({'name': name, 'reg': variants[0], 'orders': len(variants), 'hash': reg_hash(variants[0]), 'nontrivial': is_nontrivial(variants[0]),
                                 'fails': fails[:5], 'ndiffs': ndiff, 'failing_variant': fv})
            res['dist'][variants[0].get('kind', 'corpus')] = res['dist'].get(variants[0].get('kind', 'corpus'), 0) + 1
        res['n'] = sum(len(v) for _, v in groups)
        res['wall'] = time.time() - t0
        return res
    return cached('perm', tier, seed, compute)


def summarize_groups(ctx, res, what):
    """decision rule for the cross-variant suites (perm, presentations, rtti, history)"""
    if not res['build']['h1']:
        ctx.broken.append('harness H1 does not build against /repo: ' + res['build']['h1_log'][-400:])
    if not res['build']['model']:
        ctx.broken.append('model driver does not build: ' + res['build']['model_log'][-400:])
    nfail = 0; ndiff = 0; nontriv = set(); samples = []
    for e in res['cases']:
        if e['nontrivial']: nontriv.add(e['hash'])
        if e['fails']:
            nfail += 1
            if nfail <= 3:
                ctx.violation('%s (case %s)' % (e['fails'][0], e['name']),
                              {'case': e['name'], 'registry': e['reg'], 'other_variant': e.get('failing_variant'), 'failures': e['fails'],
                               'history': e.get('history'), 'policy': e.get('policy'),
                               'replay_case': ('case %s\nids small\n%s\nend\n' % (e['name'], '\n'.join(e['history']))) if e.get('history') else case_text(e['name'], e['reg'], ['vec']) + (case_text(e['name'] + '.b', e['failing_variant'], ['vec']) if e.get('failing_variant') else '')})
        if e.get('ndiffs'):
            ndiff += 1
            if ndiff <= 2 and not e['fails']:
                ctx.broken.append('correspondence: implementation and model differ on a variant of case %s' % e['name'])
        if len(samples) < 2 and e['nontrivial']:
            samples.append({'records': e['reg']['records'], 'methods': e['reg']['methods'], what: e.get('orders')})
    return {'evaluations': res['n'], 'distinct_nontrivial': len(nontriv), 'groups': len(res['cases']),
            'rule': 'each generated registry (tools/corelib.gen_registry) is run in several %s; evaluations counts registry variants run; distinct_nontrivial counts distinct base registries '
                    '(sha1 of records+methods) with a class having >= 2 direct bases or a method with >= 2 definitions' % what,
            'samples': samples, 'input_distribution': res['dist'], 'groups_failing_property': nfail, 'groups_with_model_impl_difference': ndiff,
            'suite_wall_s': round(res.get('wall', 0), 1)}


# --------------------------------------------------------------------------- C08: presentations of one inheritance graph

def accepts_relation(impl):
    """from the implementation's dump: set of (b, d) such that class d is covariant with class b"""
    acc = set()
    for k, v in impl.items():
        if k.startswith('class '):
            b = int(k.split()[1])
            m = re.search(r' cov((?: \d+)*)$', v)
            for d in (m.group(1).split() if m else []):
                acc.add((b, int(d)))
    return acc


def present_suite(tier, seed):
    """C08: each DAG registered under several presentations; observations compared across presentations,
    the acceptance relation compared with the graph itself, and no (method, parameter) pairs share a cell"""
    def compute():
        t0 = time.time()
        binp, blog = corelib.h1_binary(); mdl, mlog = corelib.model_binary()
        res = {'build': {'h1': bool(binp), 'model': bool(mdl), 'h1_log': '' if binp else blog[-1500:], 'model_log': '' if mdl else mlog[-1500:]},
               'cases': [], 'dist': {}, 'n': 0}
        if not binp or not mdl:
            return res
        rng = vlib.Rng(seed * 104729 + 8)
        n = 120 if tier == 'quick' else 1200
        styles = ['full_sorted', 'full', 'direct', 'direct', 'superset', 'split', 'mixed', 'mixed']
        groups = []
        def variants_of(reg0, k):
            nn = reg0['n']; parents = {int(a): b for a, b in reg0['parents'].items()}
            vs = []
            for st in (styles if k >= len(styles) else styles[:k]):
                recs0 = present(rng, nn, parents, st)
                r2 = dict(reg0); r2['records'] = [[c, 1 if c in reg0['abstract'] else 0, l] for c, l in recs0]; r2['style'] = st
                vs.append(r2)
            return vs
        for c in load_corpus('core'):
            if 'reg' in c and 'C08' in c.get('properties', []):
                groups.append((c['name'], [c['reg']] + variants_of(c['reg'], 8)))
        for i in range(n):
            reg0 = gen_registry(rng, shapes=FULL_SHAPES, style='full_sorted', max_classes=9, max_methods=3,
                                kind=rng.choice(['diamond', 'comb', 'mi_above_si', 'si_above_mi', 'random', 'random', 'tree', 'forest']))
            groups.append(('g%d' % i, variants_of(reg0, 6 if tier == 'quick' else 8)))
        pols = ['vec', 'chk', 'vec', 'hash']
        pol_of = lambda name, vi: pols[int(name[1:]) % len(pols)] if re.match(r'^g\d+$', name) else 'vec'
        impl, model = _run_variants(binp, mdl, groups, pol_of)
        for name, variants in groups:
            reg0 = variants[0]
            nn = reg0['n']; parents = {int(a): b for a, b in reg0['parents'].items()}
            anc = ancestors(parents, nn)
            want_acc = set((b, d) for d in range(1, nn + 1) for b in anc[d])
            views = []; fails = []; ndiff = 0; fv = None
            for vi, reg in enumerate(variants):
                key = '%s.%d' % (name, vi)
                ir = impl.get(key, {'lines': [], 'crashed': True, 'stderr': 'no output'})
                if ir['crashed']:
                    fails.append('presentation %d (%s): the library crashed: %s' % (vi, reg.get('style'), ir['stderr'][-300:])); fv = fv or reg; continue
                p = pol_of(name, vi)
                iobs = parse_obs(split_by_policy(ir['lines']).get(p, []))
                ev = evaluate(reg, p, iobs, parse_obs(model.get(key, [])))
                ndiff += 1 if ev['ndiffs'] else 0
                if iobs.get('update') != 'ok':
                    fails.append('presentation %d (%s): update reports %s' % (vi, reg.get('style'), iobs.get('update'))); fv = fv or reg; continue
                acc = accepts_relation(iobs)
                if acc != want_acc:
                    d = sorted(acc ^ want_acc)[0]
                    fails.append('presentation %d (%s): class %d is %s where class %d is expected, but in the graph it %s a base of it'
                                 % (vi, reg.get('style'), d[1], 'accepted' if d in acc else 'rejected', d[0], 'is' if d in want_acc else 'is not')); fv = fv or reg
                for msg in ev['fail'].get('C04', [])[:1]:
                    fails.append('presentation %d (%s): %s' % (vi, reg.get('style'), msg)); fv = fv or reg
                views.append((vi, user_view(reg, iobs)))
            if views:
                v0i, v0 = views[0]
                for vi, v in views[1:]:
                    for k in sorted(set(v0) | set(v)):
                        if v0.get(k) != v.get(k):
                            fails.append('presentation %d (%s) vs presentation %d (%s): %s is %s vs %s'
                                         % (v0i, variants[v0i].get('style'), vi, variants[vi].get('style'), k, v0.get(k), v.get(k)))
                            fv = fv or variants[vi]
                            break
            res['cases'].append({'name': name, 'reg': reg0, 'orders': len(variants), 'hash': reg_hash(reg0), 'nontrivial': is_nontrivial(reg0),
                                 'fails': fails[:5], 'ndiffs': ndiff, 'failing_variant': fv})
            res['dist'][reg0.get('kind', 'corpus')] = res['dist'].get(reg0.get('kind', 'corpus'), 0) + 1
        res['n'] = sum(len(v) for _, v in groups)
        res['wall'] = time.time() - t0
        return res
    return cached('present', tier, seed, compute)


# --------------------------------------------------------------------------- C07: load / unload histories

class Hist:
    """a registration history on one policy: mirrors the driver's bookkeeping (creation indexes, live flags)"""
    def __init__(self, pol, reg):
        self.pol = pol; self.lines = []; self.recs = []; self.meths = []; self.alias = reg.get('alias', {})
        self.n = reg['n']; self.parents = {int(a): list(b) for a, b in reg['parents'].items()}
        self.shapes = list(shapes_of(pol))
        for c, a, bases in reg['records']:
            self.add_class(c, a, bases)
        for m in reg['methods']:
            mi = self.add_method(m['shape'], m['vp'])
            for d in m['defs']:
                self.add_def(mi, d['next'], d['vp'])

    def emit(self, s): self.lines.append('@%s %s' % (self.pol, s))
    def add_class(self, c, a, bases):
        self.recs.append({'c': c, 'a': a, 'bases': list(bases), 'live': True}); self.emit('class %d %d %s' % (c, a, ' '.join(map(str, bases))))
    def add_method(self, shape, vp):
        self.meths.append({'shape': shape, 'vp': list(vp), 'live': True, 'defs': []}); self.emit('method %s %s' % (shape, ' '.join(map(str, vp))))
        return len(self.meths) - 1
    def add_def(self, mi, nx, vp):
        self.meths[mi]['defs'].append({'vp': list(vp), 'next': nx, 'live': True}); self.emit('def %d %d %s' % (mi, nx, ' '.join(map(str, vp))))
    def del_def(self, mi, di):
        self.meths[mi]['defs'][di]['live'] = False; self.emit('del def %d %d' % (mi, di))
    def del_method(self, mi):
        m = self.meths[mi]; m['live'] = False
        for d in m['defs']: d['live'] = False
        self.emit('del method %d' % mi)
    def del_class(self, ri):
        self.recs[ri]['live'] = False; self.emit('del class %d' % ri)
    def live_registry(self):
        return {'n': self.n, 'parents': {str(k): v for k, v in self.parents.items()}, 'abstract': [],
                'records': [[r['c'], r['a'], r['bases']] for r in self.recs if r['live']],
                'methods': [{'shape': m['shape'], 'vp': m['vp'], 'defs': [{'vp': d['vp'], 'next': d['next']} for d in m['defs'] if d['live']]}
                            for m in self.meths if m['live']],
                'alias': self.alias}
    def used_classes(self):
        u = set()
        for m in self.meths:
            if m['live']:
                u.update(m['vp'])
                for d in m['defs']:
                    if d['live']: u.update(d['vp'])
        for r in self.recs:
            if r['live']: u.update(b for b in r['bases'] if b != r['c'])
        return u

    def mutate(self, rng):
        """one legal modification of the live catalogs (the registry stays well formed)"""
        anc = ancestors(self.parents, self.n)
        desc = {c: sorted(d for d in range(1, self.n + 1) if c in anc[d] and any(r['live'] and r['c'] == d for r in self.recs)) for c in range(1, self.n + 1)}
        live_m = [i for i, m in enumerate(self.meths) if m['live']]
        choice = rng.below(10)
        if choice < 3 and live_m:           # remove a definition (first / middle / last / only)
            mi = rng.choice(live_m); ld = [j for j, d in enumerate(self.meths[mi]['defs']) if d['live']]
            if ld:
                self.del_def(mi, rng.choice([ld[0], ld[-1], rng.choice(ld)])); return 'del_def'
        if choice < 6 and live_m:           # add a definition
            mi = rng.choice(live_m); m = self.meths[mi]
            if all(desc[c] for c in m['vp']) and len(m['defs']) < 10:
                self.add_def(mi, 1 if rng.chance(3, 4) else 0, [rng.choice(desc[c]) for c in m['vp']]); return 'add_def'
        if choice == 6 and len(live_m) > 1:  # unload a method with its definitions
            self.del_method(rng.choice(live_m)); return 'del_method'
        if choice == 7:                      # load a method
            used_shapes = [self.meths[i]['shape'] for i in live_m]
            avail = list(self.shapes)
            for s in used_shapes:
                if s in avail: avail.remove(s)
            live_c = sorted(set(r['c'] for r in self.recs if r['live']))
            if avail and live_c:
                shape = rng.choice(avail); vp = [rng.choice(live_c) for _ in range(shape.count('v'))]
                mi = self.add_method(shape, vp)
                for _ in range(rng.range(0, 3)):
                    if all(desc[c] for c in vp): self.add_def(mi, 1, [rng.choice(desc[c]) for c in vp])
                return 'add_method'
        if choice == 8:                      # unload a class nothing refers to, or one of several records of a class
            used = self.used_classes()
            cands = []
            for ri, r in enumerate(self.recs):
                if not r['live']: continue
                others = [q for qi, q in enumerate(self.recs) if q['live'] and qi != ri and q['c'] == r['c']]
                if r['c'] not in used and not others: cands.append(ri)
            if cands:
                self.del_class(rng.choice(cands)); return 'del_class'
        # load a class: a new leaf deriving from live classes, or a removed class again
        dead = [r for r in self.recs if not r['live'] and not any(q['live'] and q['c'] == r['c'] for q in self.recs)]
        live_c = sorted(set(r['c'] for r in self.recs if r['live']))
        if dead and rng.chance(1, 2):
            r = rng.choice(dead)
            if all(b == r['c'] or b in live_c for b in r['bases']):
                self.add_class(r['c'], r['a'], r['bases']); return 're_add_class'
        if self.n < 14 and live_c:
            self.n += 1; c = self.n
            bs = sorted(set(rng.sample(live_c, min(len(live_c), rng.choice([1, 1, 2])))))
            self.parents[c] = bs
            full = sorted(set(x for b in bs for x in ancestors(self.parents, self.n)[b]))
            self.add_class(c, 0, rng.choice([bs, full, [c] + full])); return 'add_class'
        return 'none'


def history_suite(tier, seed):
    def compute():
        t0 = time.time()
        binp, blog = corelib.h1_binary(); mdl, mlog = corelib.model_binary()
        res = {'build': {'h1': bool(binp), 'model': bool(mdl), 'h1_log': '' if binp else blog[-1500:], 'model_log': '' if mdl else mlog[-1500:]},
               'cases': [], 'dist': {}, 'n': 0}
        if not binp or not mdl:
            return res
        rng = vlib.Rng(seed * 15485863 + 7)
        n = 90 if tier == 'quick' else 900
        pols = ['vec', 'hash', 'chk', 'def', 'defvec', 'map', 'ind']
        hists = []
        for i in range(n):
            pol = pols[i % len(pols)]
            reg = gen_registry(rng, shapes=shapes_of(pol), max_classes=7, max_methods=3)
            h = Hist(pol, reg); h.name = 'h%d' % i; h.updates = []; h.ops = {}
            nrounds = rng.range(2, 6 if tier == 'quick' else 12)
            h.emit('update'); h.updates.append(h.live_registry())
            for _ in range(nrounds):
                for _ in range(rng.range(1, 4)):
                    k = h.mutate(rng); h.ops[k] = h.ops.get(k, 0) + 1
                h.emit('update'); h.updates.append(h.live_registry())
                if rng.chance(1, 3):
                    h.emit('update'); h.updates.append(h.live_registry()); h.ops['update_again'] = h.ops.get('update_again', 0) + 1
            hists.append(h)
        text = ''.join('case %s\nids small\n%s\nend\n' % (h.name, '\n'.join(h.lines)) for h in hists)
        impl = run_h1(binp, text, timeout=1200)
        queries = [('%s.%d' % (h.name, k), query_text('%s.%d' % (h.name, k), r)) for h in hists for k, r in enumerate(h.updates)]
        model = {}
        for b0 in range(0, len(queries), 400):
            model.update(run_model(mdl, queries[b0:b0 + 400], timeout=1200))
        # the final catalogs again, in a fresh process
        fresh_text = ''.join(case_text(h.name + '.fresh', h.updates[-1], [h.pol]) for h in hists)
        fresh = run_h1(binp, fresh_text, timeout=1200)
        for h in hists:
            ir = impl.get(h.name, {'lines': [], 'crashed': True, 'stderr': 'no output'})
            fails = []; ndiff = 0; fails_c09 = []
            chunks = split_updates(split_by_policy(ir['lines']).get(h.pol, []))
            if ir['crashed']:
                fails.append('the library crashed during the history (after %d updates): %s' % (len(chunks), ir['stderr'][-300:]))
            last_view = None
            for k, reg in enumerate(h.updates):
                if k >= len(chunks): break
                iobs = parse_obs(chunks[k])
                ev = evaluate(reg, h.pol, iobs, parse_obs(model.get('%s.%d' % (h.name, k), [])))
                ndiff += 1 if ev['ndiffs'] else 0
                for prop in ('C01', 'C02', 'C03', 'C04', 'C09'):
                    for msg in ev['fail'].get(prop, [])[:1]:
                        fails.append('after update %d of the history: %s' % (k, msg))
                        if prop == 'C09': fails_c09.append('after update %d of the history: %s' % (k, msg))
                view = user_view(reg, iobs)
                if k > 0 and h.updates[k - 1] == reg and last_view is not None and view != last_view:
                    kk = [x for x in sorted(set(view) | set(last_view)) if view.get(x) != last_view.get(x)][0]
                    fails.append('update %d repeated with no change alters %s: %s vs %s' % (k, kk, last_view.get(kk), view.get(kk)))
                last_view = view
            fr = fresh.get(h.name + '.fresh')
            if fr and not fr['crashed'] and last_view is not None and len(chunks) >= len(h.updates):
                fobs = parse_obs(split_by_policy(fr['lines']).get(h.pol, []))
                fview = user_view(h.updates[-1], fobs)
                # real calls exist only for methods that got a real method<> in the driver, which depends on the history
                common = lambda a, b: {x: a[x] for x in a if not x.startswith(('call ', 'resolve ')) or x in b}
                fview, lview = common(fview, last_view), common(last_view, fview)
                if fview != lview:
                    last_view = lview
                    kk = [x for x in sorted(set(fview) | set(last_view)) if fview.get(x) != last_view.get(x)][0]
                    fails.append('after the history %s is %s but a fresh process with the same registrations gives %s' % (kk, last_view.get(kk), fview.get(kk)))
            reg0 = h.updates[0]
            res['cases'].append({'name': h.name, 'reg': h.updates[-1], 'orders': len(h.updates), 'hash': hashlib.sha1('\n'.join(h.lines).encode()).hexdigest(),
                                 'nontrivial': any(k.startswith('del') for k in h.ops), 'fails': fails[:5], 'fails_c09': fails_c09[:5], 'ndiffs': ndiff, 'failing_variant': None,
                                 'history': h.lines if fails else None, 'policy': h.pol})
            for k, v in h.ops.items():
                res['dist'][k] = res['dist'].get(k, 0) + v
            res['dist']['policy ' + h.pol] = res['dist'].get('policy ' + h.pol, 0) + 1
        res['n'] = sum(len(h.updates) for h in hists)
        res['wall'] = time.time() - t0
        return res
    return cached('history', tier, seed, compute)


# --------------------------------------------------------------------------- C10: the same registry under every RTTI flavour

def with_aliases(rng, reg):
    """several ids per class: alias ids n+1.. map to their class's representative id; records, bases, method and
    definition parameters use any id of the class"""
    n = reg['n']; alias = {}; ids = {c: [c] for c in range(1, n + 1)}; nxt = n + 1
    for c in range(1, n + 1):
        for _ in range(rng.choice([0, 0, 1, 2])):
            if nxt < 60:
                alias[str(nxt)] = c; ids[c].append(nxt); nxt += 1
    pick = lambda c: rng.choice(ids[c])
    recs = []
    for c, a, bases in reg['records']:
        recs.append([pick(c), a, [pick(b) for b in bases]])
    # every alias id must be registered (an id is known to the library only through a class record)
    for c in range(1, n + 1):
        for t in ids[c]:
            if not any(r[0] == t for r in recs):
                proto = [r for r in reg['records'] if r[0] == c][0]
                recs.append([t, proto[1], [pick(b) for b in proto[2]]])
    ms = [{'shape': m['shape'], 'vp': [pick(c) for c in m['vp']],
           'defs': [{'vp': [pick(c) for c in d['vp']], 'next': d['next']} for d in m['defs']]} for m in reg['methods']]
    r2 = dict(reg); r2['records'] = recs; r2['methods'] = ms; r2['alias'] = alias
    return r2


def rtti_suite(tier, seed):
    def compute():
        t0 = time.time()
        binp, blog = corelib.h1_binary(); mdl, mlog = corelib.model_binary()
        res = {'build': {'h1': bool(binp), 'model': bool(mdl), 'h1_log': '' if binp else blog[-1500:], 'model_log': '' if mdl else mlog[-1500:]},
               'cases': [], 'dist': {}, 'n': 0}
        if not binp or not mdl:
            return res
        rng = vlib.Rng(seed * 32452843 + 10)
        n = 100 if tier == 'quick' else 1000
        flavours = [('vec', 'small', False), ('hash', 'typeid', False), ('chk', 'small', False), ('proj', 'small', True),
                    ('def', 'small', False), ('def', 'typeid', False), ('defvec', 'small', False)]
        text = []; queries = []; groups = []
        for i in range(n):
            reg = gen_registry(rng, shapes=LITE_SHAPES, max_classes=7, max_methods=3, max_arity=3)
            vs = []
            for fi, (pol, ids, al) in enumerate(flavours):
                r = with_aliases(rng, reg) if al else reg
                nupd = rng.choice([1, 1, 2, 3])
                name = 't%d.%d' % (i, fi)
                lines = ['case %s' % name, 'ids %s' % ids] + ['alias %d %d' % (int(a), b) for a, b in sorted((int(k), v) for k, v in r['alias'].items())]
                lines += case_lines(r, pol, update=False) + ['@%s update' % pol] * nupd + ['end']
                text.append('\n'.join(lines) + '\n'); queries.append((name, query_text(name, r)))
                vs.append((name, pol, ids, r, nupd))
            groups.append(('t%d' % i, reg, vs))
        impl = {}; model = {}
        for b0 in range(0, len(text), 350):
            impl.update(run_h1(binp, ''.join(text[b0:b0 + 350]), timeout=1200))
            model.update(run_model(mdl, queries[b0:b0 + 350], timeout=1200))
        for gname, reg, vs in groups:
            fails = []; ndiff = 0; views = []
            nn = reg['n']
            for name, pol, ids, r, nupd in vs:
                ir = impl.get(name, {'lines': [], 'crashed': True, 'stderr': 'no output'})
                if ir['crashed']:
                    fails.append('flavour %s/%s: the library crashed: %s' % (pol, ids, ir['stderr'][-300:])); continue
                chunks = split_updates(split_by_policy(ir['lines']).get(pol, []))
                if len(chunks) != nupd:
                    fails.append('flavour %s/%s: %d updates requested, %d observed' % (pol, ids, nupd, len(chunks))); continue
                mobs = parse_obs(model.get(name, []))
                for k, ch in enumerate(chunks):
                    iobs = parse_obs(ch)
                    ev = evaluate(r, pol, iobs, mobs)
                    ndiff += 1 if ev['ndiffs'] else 0
                    for prop in ('C01', 'C02', 'C03'):
                        for msg in ev['fail'].get(prop, [])[:1]:
                            fails.append('flavour %s/%s, update %d: %s' % (pol, ids, k + 1, msg))
                    v = user_view(r, iobs)
                    # an id of a class behaves like the class's representative id
                    al = {int(a): b for a, b in r.get('alias', {}).items()}
                    if al:
                        for key, val in v.items():
                            t = key.split()
                            if t[0] in ('disp', 'call') and any(int(x) in al for x in t[2:]):
                                rk = ' '.join(t[:2] + [str(al.get(int(x), int(x))) for x in t[2:]])
                                rv = v.get(rk)
                                val2 = re.sub(r'types .*$', 'types', val); rv2 = re.sub(r'types .*$', 'types', rv or '')
                                if rv is not None and val2 != rv2:
                                    fails.append('flavour %s: call %s gives %s but with the class\'s other id (%s) it gives %s' % (pol, key, val, rk, rv)); break
                    core = {kk: vv for kk, vv in v.items() if kk.split()[0] in ('disp', 'next', 'update') and all(int(x) <= nn for x in kk.split()[2:] if kk.split()[0] == 'disp')}
                    views.append(('%s/%s update %d' % (pol, ids, k + 1), core))
            if views:
                n0, v0 = views[0]
                for n1, v1 in views[1:]:
                    for kk in sorted(set(v0) | set(v1)):
                        if v0.get(kk) != v1.get(kk):
                            fails.append('%s vs %s: %s is %s vs %s' % (n0, n1, kk, v0.get(kk), v1.get(kk))); break
            res['cases'].append({'name': gname, 'reg': reg, 'orders': len(views), 'hash': reg_hash(reg), 'nontrivial': is_nontrivial(reg),
                                 'fails': fails[:5], 'ndiffs': ndiff, 'failing_variant': None})
            res['dist'][reg.get('kind', 'corpus')] = res['dist'].get(reg.get('kind', 'corpus'), 0) + 1
        res['n'] = sum(len(vs) for _, _, vs in groups)
        res['wall'] = time.time() - t0
        return res
    return cached('rtti', tier, seed, compute)


# --------------------------------------------------------------------------- C15: unregistered classes

def unknown_suite(tier, seed):
    def compute():
        t0 = time.time()
        binp, blog = corelib.h1_binary(); mdl, mlog = corelib.model_binary()
        res = {'build': {'h1': bool(binp), 'model': bool(mdl), 'h1_log': '' if binp else blog[-1500:], 'model_log': '' if mdl else mlog[-1500:]},
               'cases': [], 'dist': {}, 'n': 0}
        if not binp or not mdl:
            return res
        rng = vlib.Rng(seed * 49979687 + 15)
        n = 120 if tier == 'quick' else 1200
        pols = ['chk', 'thr', 'chk', 'proj', 'chk2', 'vec', 'hash']
        text = []; queries = []; cases = []
        for i in range(n):
            pol = pols[i % len(pols)]
            reg = gen_registry(rng, shapes=shapes_of(pol), max_classes=7, max_methods=3, max_arity=3)
            nn = reg['n']
            # ---- update time: leave one class out, at a chosen place
            place = rng.choice(['base', 'method', 'def'])
            cands = set()
            if place == 'base':
                for c, a, bases in reg['records']: cands.update(b for b in bases if b != c)
            elif place == 'method':
                for m in reg['methods']: cands.update(m['vp'])
            else:
                for m in reg['methods']:
                    for d in m['defs']: cands.update(d['vp'])
            if cands:
                x = rng.choice(sorted(cands))
                r2 = dict(reg); r2['records'] = [r for r in reg['records'] if r[0] != x]
                name = 'u%d.loo' % i
                text.append(case_text(name, r2, [pol])); queries.append((name, query_text(name, r2)))
                used = set()
                for c, a, bases in r2['records']: used.update(bases)
                for m in r2['methods']:
                    used.update(m['vp'])
                    for d in m['defs']: used.update(d['vp'])
                registered = set(r[0] for r in r2['records'])
                cases.append({'name': name, 'kind': 'leave-one-out/' + place, 'pol': pol, 'reg': r2, 'missing': x,
                              'unregistered_used': sorted(used - registered)})
            # ---- call time (checked policies only): an unregistered dynamic class at each virtual position
            if pol in CHECKED:
                ghost = nn + 3
                lines = ['case u%d.call' % i, 'ids small'] + case_lines(reg, pol)
                slots_ok = slot_assignment(reg, shapes_of(pol))
                anc = ancestors({int(a): b for a, b in reg['parents'].items()}, nn)
                expect = {}
                for mi, m in enumerate(reg['methods']):
                    if not slots_ok[mi]: continue
                    ok_ids = []
                    for p in m['vp']:
                        ds = [d for d in range(1, nn + 1) if p in anc[d]]
                        ok_ids.append(rng.choice(ds))
                    for k in range(len(m['vp'])):
                        ids = list(ok_ids); ids[k] = ghost
                        if rng.chance(1, 3) and k + 1 < len(ids): ids[k + 1] = ghost + 1
                        lines.append('@%s callx %d %s' % (pol, mi, ' '.join(map(str, ids))))
                        expect['callx %d %s' % (mi, ' '.join(map(str, ids)))] = 'unknown_class %d' % ghost
                lines.append('@%s mkvptr %d' % (pol, ghost)); expect['mkvptr %d' % ghost] = 'unknown_class %d' % ghost
                lines.append('@%s probe %d' % (pol, ghost)); expect['probe %d' % ghost] = 'unknown_class %d' % ghost
                some = rng.range(1, nn)
                lines.append('@%s mkvptr %d' % (pol, some)); expect['mkvptr %d' % some] = 'ok'
                lines.append('end')
                text.append('\n'.join(lines) + '\n')
                cases.append({'name': 'u%d.call' % i, 'kind': 'call-time', 'pol': pol, 'reg': reg, 'expect': expect})
        # ---- a class that WAS registered: register, update, unregister it, update again, then use it (checked policies)
        for i in range(n // 3):
            pol = ['chk', 'thr', 'proj', 'chk2'][i % 4]
            reg = gen_registry(rng, shapes=shapes_of(pol), max_classes=6, max_methods=2, max_arity=2)
            nn = reg['n']; ghost = nn + 1
            par = [c for c in range(1, nn + 1)]
            base = rng.choice(par)
            lines = ['case u%d.gone' % i, 'ids small'] + case_lines(reg, pol, update=False)
            lines.append('@%s class %d 0 %d %d' % (pol, ghost, ghost, base))       # record index = len(records)
            lines.append('@%s update' % pol)
            lines.append('@%s mkvptr %d' % (pol, ghost))
            lines.append('@%s del class %d' % (pol, len(reg['records'])))
            lines.append('@%s update' % pol)
            expect = {'mkvptr %d' % ghost: 'unknown_class %d' % ghost, 'probe %d' % ghost: 'unknown_class %d' % ghost}
            lines.append('@%s mkvptr %d' % (pol, ghost)); lines.append('@%s probe %d' % (pol, ghost))
            slots_ok = slot_assignment(reg, shapes_of(pol))
            anc = ancestors({int(a): b for a, b in reg['parents'].items()}, nn)
            for mi, m in enumerate(reg['methods']):
                if not slots_ok[mi]: continue
                ids = [rng.choice([d for d in range(1, nn + 1) if p in anc[d]]) for p in m['vp']]
                k = rng.below(len(ids)); ids[k] = ghost
                lines.append('@%s callx %d %s' % (pol, mi, ' '.join(map(str, ids))))
                expect['callx %d %s' % (mi, ' '.join(map(str, ids)))] = 'unknown_class %d' % ghost
            lines.append('end')
            text.append('\n'.join(lines) + '\n')
            cases.append({'name': 'u%d.gone' % i, 'kind': 'call-time after unregistration', 'pol': pol, 'reg': reg, 'expect': expect, 'last_only': True})
        impl = {}; model = {}
        for b0 in range(0, len(text), 300):
            impl.update(run_h1(binp, ''.join(text[b0:b0 + 300]), timeout=1200))
        for b0 in range(0, len(queries), 400):
            model.update(run_model(mdl, queries[b0:b0 + 400], timeout=1200))
        for c in cases:
            ir = impl.get(c['name'], {'lines': [], 'crashed': True, 'stderr': 'no output'})
            fails = []; ndiff = 0
            lines = split_by_policy(ir['lines']).get(c['pol'], [])
            if ir['crashed']:
                fails.append('the library crashed or aborted instead of reporting the unknown class: %s' % ir['stderr'][-300:])
            elif c['kind'].startswith('leave-one-out'):
                iobs = parse_obs(lines); mobs = parse_obs(model.get(c['name'], []))
                up = iobs.get('update', '')
                if not c['unregistered_used']:
                    pass          # the class was not used after all: a well-formed registry
                else:
                    m = re.match(r'error unknown_class (-?\d+)$', up)
                    if not m:
                        fails.append('class %d is not registered but is used (%s); update says "%s" instead of reporting an unknown class' % (c['missing'], c['kind'], up))
                    elif int(m.group(1)) not in c['unregistered_used']:
                        fails.append('update reports unknown class %s, which is not an unregistered class in use (those are %s)' % (m.group(1), c['unregistered_used']))
                    if any(k.startswith(('disp ', 'call ', 'image')) for k in iobs):
                        fails.append('tables were installed / calls made although update reported an error')
                if mobs.get('update') != up:
                    ndiff = 1
            else:
                got = {}
                for l in lines:
                    mm = re.match(r'(callx \d+(?: \d+)*|mkvptr \d+|probe \d+) = (.*)$', l)
                    if mm: got[mm.group(1)] = mm.group(2)
                for k, want in c['expect'].items():
                    g = got.get(k)
                    if g is None:
                        fails.append('no observation for %s' % k)
                    elif want == 'ok':
                        if g.strip() != 'ok': fails.append('%s on a registered class: %s' % (k, g))
                    elif not re.search(r'(error|threw) (ALT )?%s$' % want, g.strip()):
                        fails.append('%s with an unregistered dynamic class: got "%s", expected an unknown-class error carrying id %s' % (k, g, want.split()[-1]))
            res['cases'].append({'name': c['name'], 'reg': c['reg'], 'orders': 1, 'hash': reg_hash(c['reg']) + c['kind'], 'nontrivial': True,
                                 'fails': fails[:5], 'ndiffs': ndiff, 'failing_variant': None, 'policy': c['pol'],
                                 'history': None})
            res['dist'][c['kind'] + ' ' + c['pol']] = res['dist'].get(c['kind'] + ' ' + c['pol'], 0) + 1
        res['n'] = len(cases)
        res['wall'] = time.time() - t0
        return res
    return cached('unknown', tier, seed, compute)


# --------------------------------------------------------------------------- shrinking a failing registry

def _candidates(reg):
    """smaller registries: one method, one definition, one class or one record removed"""
    out = []
    for mi in range(len(reg['methods'])):
        r = dict(reg); r['methods'] = reg['methods'][:mi] + reg['methods'][mi + 1:]; out.append(r)
    for mi, m in enumerate(reg['methods']):
        for di in range(len(m['defs'])):
            r = dict(reg); ms = [dict(x) for x in reg['methods']]; ms[mi]['defs'] = m['defs'][:di] + m['defs'][di + 1:]; r['methods'] = ms; out.append(r)
    classes = sorted(set(rec[0] for rec in reg['records']))
    for c in classes:
        used = any(c in m['vp'] or any(c in d['vp'] for d in m['defs']) for m in reg['methods'])
        if used: continue
        r = dict(reg); r['records'] = [[x, a, [b for b in bs if b != c]] for x, a, bs in reg['records'] if x != c]; out.append(r)
    for ri in range(len(reg['records'])):
        c = reg['records'][ri][0]
        if sum(1 for rec in reg['records'] if rec[0] == c) > 1:
            r = dict(reg); r['records'] = reg['records'][:ri] + reg['records'][ri + 1:]; out.append(r)
    for ri, (c, a, bs) in enumerate(reg['records']):
        for bi in range(len(bs)):
            r = dict(reg); recs = [list(x) for x in reg['records']]; recs[ri] = [c, a, bs[:bi] + bs[bi + 1:]]; r['records'] = recs; out.append(r)
    return out


def shrink_registry(reg, pol, prop, max_rounds=12):
    """greedy shrinking: keep a smaller registry whenever the implementation still violates `prop` on it
    (judged by the extracted specification through `evaluate`; a crash counts)"""
    binp, _ = corelib.h1_binary(); mdl, _ = corelib.model_binary()
    if not binp or not mdl:
        return reg
    cur = reg
    for _ in range(max_rounds):
        cands = _candidates(cur)
        if not cands: break
        text = ''.join(case_text('s%d' % i, r, [pol]) for i, r in enumerate(cands))
        impl = run_h1(binp, text, timeout=300)
        model = run_model(mdl, [('s%d' % i, query_text('s%d' % i, r)) for i, r in enumerate(cands)], timeout=300)
        nxt = None
        for i, r in enumerate(cands):
            ir = impl.get('s%d' % i)
            if not ir: continue
            mobs = parse_obs(model.get('s%d' % i, []))
            if mobs.get('update') != 'ok': continue           # keep the registry well formed
            if ir['crashed']:
                nxt = r; break
            ev = evaluate(r, pol, parse_obs(split_by_policy(ir['lines']).get(pol, [])), mobs)
            if ev['fail'].get(prop):
                nxt = r; break
        if nxt is None: break
        cur = nxt
    return cur
