#!/bin/bash
# Build and run the pinned suite at each given commit of /repo in a scratch worktree (guard off).
# usage: tools/validate_commits.sh <logfile> <commit>...
log=$1; shift
for c in "$@"; do
  wt=$(mktemp -d /tmp/y2wt.XXXXXX)
  git -C /repo worktree add -q --detach "$wt" "$c" || { echo "$c worktree-failed" >> "$log"; continue; }
  ( cd "$wt" && cmake -G Ninja -B _b -DCMAKE_BUILD_TYPE=RelWithDebInfo -DYOMM2_ENABLE_TESTS=ON -DCMAKE_CXX_FLAGS=-Wno-error >/dev/null 2>&1 \
    && cmake --build _b -j${JOBS:-8} >/dev/null 2>&1 \
    && ctest --test-dir _b -j8 --timeout 900 2>&1 | tail -3 | tr '\n' ' ' ) > "$wt.out" 2>&1
  echo "$c $(git -C /repo log -1 --format=%s "$c" | cut -c1-60) :: $(cat "$wt.out")" >> "$log"
  git -C /repo worktree remove --force "$wt"; rm -f "$wt.out"
done
echo done >> "$log"
