#!/usr/bin/env python3
"""Regenerates /verif/MANIFEST.json from the table below (edit the table, run, commit)."""
import json, os, subprocess
V = os.path.dirname(os.path.dirname(os.path.abspath(__file__)))
props = [json.loads(l) for l in open(os.path.join(V, 'properties.jsonl'))]

CORE_NOTE = ('Trusted: Coq 8.16.1 kernel (vm_compute, no native_compute), no axioms (Print Assumptions: closed); extraction (ExtrOcamlBasic only) + '
             'OCaml driver; C++ harness H1, Python generators/differ. The Gallina model of update/resolve (Model/Compile.v) is hand-written: it is tied '
             'to /repo by differential runs (every internal table and every legal call tuple) on generated registries, not verified against the C++ text.')

# id -> (level category, level text, technique, level note, design ref, engine)
CLAIMED = {}

def claim(pid, cat, text, technique, note=CORE_NOTE, ref=None, engine='coq+h1'):
    CLAIMED[pid] = (cat, text, technique, note, ref or ('DESIGN.md section 8, %s' % pid), engine)

def load_claims():
    p = os.path.join(V, 'tools', 'claims.json')
    for c in json.load(open(p)):
        claim(c['id'], c['category'], c['text'], c['technique'], c.get('note', CORE_NOTE), c.get('ref'), c.get('engine', 'coq+h1'))

load_claims()
hook_commits = ['fcd8e32']
m = {
    'version': 1,
    'setup_cmd': './setup.sh',
    'hooks': {
        'guard': 'YOMM2_VERIF',
        'enable': 'harness drivers are compiled from /repo/include with -DYOMM2_VERIF (tools/vlib.py build_cpp)',
        'baseline_off_cmd': 'cmake -G Ninja -B /repo/_build -S /repo -DCMAKE_BUILD_TYPE=RelWithDebInfo -DYOMM2_ENABLE_TESTS=ON -DCMAKE_CXX_FLAGS=-Wno-error && cmake --build /repo/_build -j16 && ctest --test-dir /repo/_build -j8 --timeout 900',
        'source_commits': hook_commits,
        'add_only': True,
    },
    'engines': [
        {'name': 'coq', 'path': 'coq/', 'serves_properties': sorted(CLAIMED), 'kind_free_text': 'Coq 8.16.1 development: Model/ (executable Gallina), Spec/, Proofs/, Properties/ (one file per property), Gen/ (regenerated from /repo by translators/), Extract/'},
        {'name': 'h1', 'path': 'harness/h1/', 'serves_properties': [p for p in sorted(CLAIMED) if CLAIMED[p][5] == 'coq+h1'], 'kind_free_text': 'registry-level C++ driver running the real compiler<Policy> and the real method<>::resolve / fn on run-time registries, under ASan/UBSan; compared line by line with the extracted model and judged by the extracted specification'},
    ],
    'checks': [],
    'notes': 'Machine-checked proof in Coq 8.16.1 over a Gallina model tied to /repo on every run in two ways: twenty-one pieces of the code (static_list, the ordering of definitions, the call-time walk, the hash search, the virtual_ptr constructor, the error stubs, v-table pointer publication, the registration constructors, the decoder and the encoder loops, every stage of update - augment_classes, augment_methods, assign_slots, the grouping and the table builder, install_gv, the report arithmetic, the order of the phases -, the deferred-id resolver, the writer of forward declarations) are translated from the C++ text by translators/ on every run and proved equal to the model, stage theorems chained to the end-to-end theorem (Properties_update_source.v); everything is also run differentially (extracted model vs real code on the same inputs); constants, facet lists and the access lists of the compiled call path are translated too. See DESIGN.md (13.7). Known findings: known_findings.txt.',
    'not_applicable': [],
}
for p in props:
    pid = p['id']
    if pid in CLAIMED and os.path.exists(os.path.join(V, 'checks', pid + '.py')):
        cat, text, tech, note, ref, eng = CLAIMED[pid]
        m['checks'].append({
            'property_id': pid,
            'quick_cmd': './check %s --tier quick' % pid,
            'thorough_cmd': './check %s --tier thorough' % pid,
            'evidence_file': 'evidence/%s.json' % pid,
            'replay_cmd_template': './check %s --replay {path}' % pid,
            'engine': eng,
            'level_claimed': {'category': cat, 'text': text, 'design_ref': ref},
            'level_note': note,
            'technique': tech,
        })
    else:
        m['not_applicable'].append({'property_id': pid, 'reason': 'check under construction in this session (designed in DESIGN.md section 8); not yet claimed'})
json.dump(m, open(os.path.join(V, 'MANIFEST.json'), 'w'), indent=1)
print('claimed:', [c['property_id'] for c in m['checks']])
