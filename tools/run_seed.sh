#!/bin/bash
# usage: tools/run_seed.sh <seeded name> <check ids...>  — runs checks against a scratch copy of /repo with the seeded patch applied
name=$1; shift
d=$(mktemp -d /tmp/sr_XXXXXX)
rsync -a --exclude _build --exclude .git /repo/ $d/
( cd $d && patch -p1 -s < /verif/seeded/$name/patch.diff ) || { echo "patch failed"; rm -rf $d; exit 2; }
for id in "$@"; do
  out=$(cd /verif && VERIF_REPO=$d VERIF_EVIDENCE_DIR=/verif/build/seed_evidence ./check $id 2>&1); rc=$?
  echo "[$name] $id exit=$rc :: $(echo "$out" | grep -E 'VIOLATION|KNOWN' | head -2 | cut -c1-260)"
  echo "$out" | grep -A1 VIOLATION | grep -v VIOLATION | head -1 | cut -c1-300
done
rm -rf $d
