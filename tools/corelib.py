#!/usr/bin/env python3
"""Shared machinery of the checks served by harness H1 (C01-C04, C06-C08, C10, C12-C15, C17).

Abstract registry (Python dict):
  {'n': <number of classes, numbered 1..n>,
   'parents': {c: [direct bases]},              the inheritance DAG G
   'abstract': [c, ...],
   'records': [[c, abstract, [listed bases...]], ...]   the presentation, catalog order
   'methods': [{'shape': 'vnv', 'vp': [c, c], 'defs': [{'vp': [c, c], 'next': 0|1}, ...]}, ...],
   'alias': {id: representative id}}              many-to-one type_index (proj flavour)
"""
import hashlib, json, os, re, subprocess, sys, tempfile, time
sys.path.insert(0, os.path.dirname(os.path.abspath(__file__)))
import vlib

H1_SOURCES = ['harness/h1/main.cpp', 'harness/h1/pol_part0.cpp', 'harness/h1/pol_part1.cpp', 'harness/h1/pol_part2.cpp', 'harness/h1/pol_part3.cpp', 'harness/h1/textgen.cpp']
FULL_SHAPES = ['v', 'v', 'v', 'vv', 'vv', 'vv', 'vvv', 'vvv', 'vvvv', 'nv', 'vn', 'vnv', 'vnv', 'nvnv', 'vvn', 'nvvn', 'vnvnv', 'vnnv']
LITE_SHAPES = ['v', 'v', 'vv', 'vv', 'vvv', 'vnv', 'nv']
ALL_POLICIES = ['vec', 'hash', 'chk', 'map', 'ind', 'thr', 'bc', 'proj', 'def', 'defvec', 'chk2', 'vec2', 'map2', 'cmap', 'cmap2']
CHECKED = {'chk', 'thr', 'proj', 'chk2'}


def h1_binary():
    srcs = [s for s in H1_SOURCES if os.path.exists(os.path.join(vlib.VERIF, s))]
    flags = ['-O1', '-g', '-fsanitize=address,undefined', '-fno-sanitize-recover=all']
    if os.environ.get('VERIF_H1_NOSAN'):
        flags = ['-O1', '-g']
    return vlib.build_cpp('h1', srcs, flags=flags, timeout=1500)


def model_binary():
    return vlib.ocaml_driver('core_model', 'Extract/ExtractCore.vo', ['ocaml/core_driver.ml'])


# --------------------------------------------------------------------------- generation

def ancestors(parents, n):
    anc = {c: {c} | set(parents.get(c, [])) for c in range(1, n + 1)}
    ch = True
    while ch:
        ch = False
        for c in anc:
            for b in list(anc[c]):
                for bb in anc[b]:
                    if bb not in anc[c]:
                        anc[c].add(bb); ch = True
    return anc


def gen_dag(rng, n, kind):
    """parents over abstract nodes 0..n-1 with edges from lower to higher index, then a random renumbering to 1..n"""
    par = {i: [] for i in range(n)}
    if kind == 'chain':
        for i in range(1, n): par[i] = [i - 1]
    elif kind == 'tree':
        for i in range(1, n): par[i] = [rng.below(i)]
    elif kind == 'forest':
        for i in range(1, n):
            if not rng.chance(1, 4): par[i] = [rng.below(i)]
    elif kind == 'diamond':
        for i in range(1, n):
            k = 1 if i < 2 else rng.choice([1, 2, 2])
            par[i] = sorted(set(rng.sample(range(i), min(k, i))))
    elif kind == 'comb':
        # many roots, one class deriving from many of them, then single inheritance below / above
        r = max(2, n // 2)
        for i in range(r, n):
            if i == r: par[i] = list(range(r))
            else: par[i] = [rng.range(r, i - 1)] if rng.chance(2, 3) else sorted(set(rng.sample(range(i), min(2, i))))
    elif kind == 'mi_above_si':
        top = max(3, n // 2)
        for i in range(1, top): par[i] = sorted(set(rng.sample(range(i), min(rng.choice([1, 2]), i))))
        for i in range(top, n): par[i] = [i - 1 if rng.chance(2, 3) else rng.range(top - 1, i - 1)]
    elif kind == 'si_above_mi':
        top = max(2, n // 2)
        for i in range(1, top): par[i] = [i - 1]
        for i in range(top, n): par[i] = sorted(set(rng.sample(range(i), min(rng.choice([1, 2, 3]), i))))
    else:  # random dag
        for i in range(1, n):
            k = rng.choice([0, 1, 1, 2, 2, 3])
            par[i] = sorted(set(rng.sample(range(i), min(k, i))))
    perm = list(range(1, n + 1))
    rng.shuffle(perm)
    parents = {perm[i]: sorted(perm[b] for b in par[i]) for i in range(n)}
    # drop redundant edges? keep: a listed direct base may also be an indirect one in C++ only with virtual bases; keep it general
    return parents


DAG_KINDS = ['chain', 'tree', 'forest', 'diamond', 'comb', 'mi_above_si', 'si_above_mi', 'random', 'random']


def present(rng, n, parents, style):
    """registration records for the DAG: style in full | direct | superset | split | mixed"""
    anc = ancestors(parents, n)
    order = list(range(1, n + 1))
    if style != 'full_sorted':
        rng.shuffle(order)
    recs = []
    for c in order:
        st = style if style != 'mixed' else rng.choice(['full', 'direct', 'superset', 'split'])
        proper = sorted(anc[c] - {c})
        direct = list(parents.get(c, []))
        if st in ('full', 'full_sorted'):
            lst = [c] + proper
            rng.shuffle(lst)
            recs.append([c, lst])
        elif st == 'direct':
            lst = list(direct); rng.shuffle(lst)
            if rng.chance(1, 3): lst = [c] + lst
            recs.append([c, lst])
        elif st == 'superset':
            extra = [b for b in proper if b not in direct and rng.chance(1, 2)]
            lst = direct + extra
            if rng.chance(1, 3) and lst: lst.append(rng.choice(lst))   # duplicated entry
            if rng.chance(1, 2): lst.append(c)
            rng.shuffle(lst)
            recs.append([c, lst])
        else:  # split: several records for the class, the direct bases spread over them
            k = rng.range(1, 3)
            parts = [[] for _ in range(k)]
            for b in direct: parts[rng.below(k)].append(b)
            for p in parts:
                if rng.chance(1, 3): p.append(c)
                recs.append([c, p])
    if style == 'split' or style == 'mixed':
        rng.shuffle(recs)
    return recs


def gen_methods(rng, n, parents, nmeth, shapes, max_defs=6, max_arity=4):
    anc = ancestors(parents, n)
    desc = {c: sorted(d for d in range(1, n + 1) if c in anc[d]) for c in range(1, n + 1)}
    ms = []
    avail = list(shapes)
    for _ in range(nmeth):
        cands = [s for s in avail if s.count('v') <= max_arity]
        if cands and rng.chance(9, 10):
            shape = rng.choice(cands); avail.remove(shape)
        else:
            shape = rng.choice(['v', 'vv', 'vvv', 'vnv', 'nvv', 'vvnv'])      # no real method<> behind it: walk only
        ar = shape.count('v')
        # virtual parameters anywhere in the lattice, biased to classes with descendants
        vp = []
        for _ in range(ar):
            c = rng.range(1, n)
            if len(desc[c]) == 1 and rng.chance(2, 3): c = rng.range(1, n)
            vp.append(c)
        nd = rng.choice([0, 1, 2, 2, 3, 3, 4, 5, max_defs])
        defs = []
        if nd and rng.chance(1, 2):
            defs.append({'vp': list(vp), 'next': 1 if rng.chance(3, 4) else 0})    # the base case: fewer 'no definition' tuples
        for _ in range(nd):
            if defs and rng.chance(1, 6):
                d = list(rng.choice(defs)['vp'])
                k = rng.below(ar); d[k] = rng.choice(desc[vp[k]])
            else:
                d = [rng.choice(desc[vp[k]]) for k in range(ar)]
            defs.append({'vp': d, 'next': 1 if rng.chance(3, 4) else 0})
        ms.append({'shape': shape, 'vp': vp, 'defs': defs})
    return ms


def gen_registry(rng, shapes=FULL_SHAPES, style=None, max_classes=10, max_methods=4, kind=None, max_arity=4):
    n = rng.choice([1, 2, 3, 4, 5, 6, 6, 7, 8, 9, max_classes])
    n = min(n, max_classes)
    kind = kind or rng.choice(DAG_KINDS)
    parents = gen_dag(rng, n, kind)
    style = style or rng.choice(['full', 'full', 'direct', 'superset', 'split', 'mixed'])
    recs0 = present(rng, n, parents, style)
    abstract = [c for c in range(1, n + 1) if rng.chance(1, 4)]
    recs = [[c, 1 if c in abstract else 0, l] for c, l in recs0]
    nm = rng.range(1, max_methods)
    ms = gen_methods(rng, n, parents, nm, shapes, max_arity=max_arity)
    return {'n': n, 'parents': {str(k): v for k, v in parents.items()}, 'abstract': abstract, 'records': recs,
            'methods': ms, 'alias': {}, 'kind': kind, 'style': style}


def is_nontrivial(reg):
    mi = any(len(v) > 1 for v in reg['parents'].values())
    return mi or any(len(m['defs']) >= 2 for m in reg['methods'])


def reg_hash(reg):
    return hashlib.sha1(json.dumps([reg['records'], reg['methods'], reg.get('alias')], sort_keys=True).encode()).hexdigest()


# --------------------------------------------------------------------------- case / query text

def case_lines(reg, pol, update=True):
    out = []
    for c, a, bases in reg['records']:
        out.append('@%s class %d %d %s' % (pol, c, a, ' '.join(map(str, bases))))
    for m in reg['methods']:
        out.append('@%s method %s %s' % (pol, m['shape'], ' '.join(map(str, m['vp']))))
    for mi, m in enumerate(reg['methods']):
        for d in m['defs']:
            out.append('@%s def %d %d %s' % (pol, mi, d['next'], ' '.join(map(str, d['vp']))))
    if update:
        out.append('@%s update' % pol)
    return out


def case_text(name, reg, pols, ids='small'):
    out = ['case %s' % name, 'ids %s' % ids]
    for a, b in sorted((int(k), v) for k, v in reg.get('alias', {}).items()):
        out.append('alias %d %d' % (a, b))
    for p in pols:
        out += case_lines(reg, p)
    out.append('end')
    return '\n'.join(out) + '\n'


def query_text(tag, reg):
    out = ['query %s' % tag]
    for a, b in sorted((int(k), v) for k, v in reg.get('alias', {}).items()):
        out.append('alias %d %d' % (a, b))
    for c, a, bases in reg['records']:
        out.append('class %d %d %s' % (c, a, ' '.join(map(str, bases))))
    for m in reg['methods']:
        out.append('method %s %s' % (m['shape'], ' '.join(map(str, m['vp']))))
    for mi, m in enumerate(reg['methods']):
        for d in m['defs']:
            out.append('def %d %d %s' % (mi, d['next'], ' '.join(map(str, d['vp']))))
    out.append('go')
    return '\n'.join(out) + '\n'


# --------------------------------------------------------------------------- running

def run_h1(binp, text, timeout=600):
    """returns dict case-name -> {'lines': [...], 'crashed': bool, 'stderr': str}; restarts after a crash"""
    cases = re.split(r'(?m)^(?=case )', text)
    cases = [c for c in cases if c.strip()]
    names = [c.split('\n', 1)[0].split()[1] for c in cases]
    res = {}
    i = 0
    env = {'ASAN_OPTIONS': 'detect_leaks=0:abort_on_error=0', 'UBSAN_OPTIONS': 'print_stacktrace=1'}
    while i < len(cases):
        with tempfile.NamedTemporaryFile('w', suffix='.case', delete=False) as f:
            f.write(''.join(cases[i:]))
            path = f.name
        rc, out, err = vlib.run2([binp, path], timeout=timeout, env=env)
        os.unlink(path)
        cur = None; done = set()
        for line in out.split('\n'):
            if line.startswith('case ') and line.endswith(' begin'):
                cur = line.split()[1]; res[cur] = {'lines': [], 'crashed': True, 'stderr': ''}
            elif line == 'case end':
                if cur: res[cur]['crashed'] = False; done.add(cur)
                cur = None
            elif cur is not None and line:
                res[cur]['lines'].append(line)
        if rc == 0 and cur is None:
            break
        # crashed (or timed out) inside case `cur` (or before any output)
        if cur is None:
            # died between cases or before the first: attribute to the next not-done case
            nxt = [n for n in names[i:] if n not in done]
            if not nxt: break
            cur = nxt[0]
            res.setdefault(cur, {'lines': [], 'crashed': True, 'stderr': ''})
        res[cur]['crashed'] = True
        res[cur]['stderr'] = err[-3000:] + ('\n[exit status %d]' % rc)
        i = names.index(cur) + 1
    return res


def run_model(binp, queries, timeout=600):
    """queries: list of (tag, text); returns dict tag -> lines"""
    rc, out, err = vlib.run2([binp], stdin=''.join(t for _, t in queries), timeout=timeout)
    res = {}; cur = []
    for line in out.split('\n'):
        if line.startswith('done '):
            res[line.split()[1]] = cur; cur = []
        elif line:
            cur.append(line)
    return res


# --------------------------------------------------------------------------- parsing observation lines

def split_by_policy(lines):
    d = {}
    for l in lines:
        if l.startswith('@') and ' ' in l:
            p, rest = l.split(' ', 1)
            d.setdefault(p[1:], []).append(rest)
    return d


def split_updates(lines):
    """split a policy's lines into chunks, one per update (a chunk starts at an 'update ...' line)"""
    chunks = []
    for l in lines:
        if l.startswith('update ') or not chunks:
            chunks.append([])
        chunks[-1].append(l)
    return chunks


CALL_RE = re.compile(r'(?:resolve (\S+) |resolve-error (.*?) )?(?:ran (d-?\d+)|error resolution (status \d+ arity \d+ types[ \d-]*)|error call_error code (\d+) (arity \d+ types[ \d-]*)|threw resolution_error (status \d+ arity \d+ types[ \d-]*)|error (unknown_class -?\d+)|threw (unknown_class -?\d+)|error (status \d+ arity \d+ types[ \d-]*))')


def canon_call(v):
    v = re.sub(r'\s*\[.*\]$', '', v).strip()
    m = CALL_RE.match(v)
    if not m:
        return ('?', v)
    res = m.group(1)
    if m.group(3): out = 'ran ' + m.group(3)
    elif m.group(4): out = 'error ' + m.group(4).strip()
    elif m.group(5): out = 'error status %s %s' % (m.group(5), m.group(6).strip())
    elif m.group(7): out = 'error ' + m.group(7).strip()
    elif m.group(8): out = 'error ' + m.group(8)
    elif m.group(9): out = 'error ' + m.group(9)
    else: out = 'error ' + m.group(10).strip()
    return (res, out)


def parse_obs(lines):
    """lines of one update chunk -> dict key -> value (impl or model)"""
    d = {}
    for l in lines:
        if ' = ' in l:
            k, v = l.split(' = ', 1)
            if k.startswith('disp '):
                m = re.match(r'(\S+)(?: reads(.*))?$', v)
                if m and m.group(2) is not None:
                    d['reads ' + k[5:]] = m.group(2).strip()
                    v = m.group(1)
                elif v.startswith('oob'):
                    v = 'oob'
            elif k.startswith('call '):
                res, v = canon_call(v)
                if res is not None:
                    d['resolve ' + k[5:]] = res
            d[k] = v.strip()
        else:
            toks = l.split()
            if not toks:
                continue                  # an empty line (the process died right after a newline)
            if toks[0] in ('update',):
                d['update'] = ' '.join(toks[1:])
            elif toks[0] in ('image',):
                d['image'] = ' '.join(toks[1:])
            elif toks[0] == 'report' and toks[1] == 'total':
                d['report total'] = ' '.join(toks[2:])
            elif len(toks) >= 2:
                d[toks[0] + ' ' + toks[1]] = ' '.join(toks[2:])
            else:
                # a line the harness never prints whole (the process died in the middle of it): kept, so that the
                # differ reports it against the model instead of the check failing to parse
                d['malformed ' + toks[0]] = ''
    return d


MODEL_ONLY = ('spec ', 'specnext ', 'specreport', 'model-')
IMPL_ONLY = ('reads ', 'resolve ', 'probe ', 'keptvptr ')


def diff_obs(impl, model, has_call):
    """differences between implementation and model observations of one update; has_call(mi) tells whether
    the implementation can make real calls for method mi"""
    diffs = []
    impl_call_methods = set(int(k.split()[1]) for k in impl if k.startswith('call '))
    for k, v in impl.items():
        if k.startswith(IMPL_ONLY):
            continue
        if k not in model:
            diffs.append((k, v, None)); continue
        if model[k] != v:
            diffs.append((k, v, model[k]))
    for k, v in model.items():
        if k.startswith(MODEL_ONLY):
            continue
        if k.startswith('call '):
            mi = int(k.split()[1])
            if not has_call(mi) or mi not in impl_call_methods:
                continue
        if k not in impl:
            diffs.append((k, None, v))
    return diffs


def slot_assignment(reg, shapes):
    """which methods of the registry get a real method<> in the driver (same greedy rule as Runner::add_method)"""
    avail = list(shapes); res = []
    for m in reg['methods']:
        if m['shape'] in avail:
            avail.remove(m['shape']); res.append(True)
        else:
            res.append(False)
    return res


def shapes_of(pol):
    return FULL_SHAPES if pol == 'vec' else LITE_SHAPES
