#!/bin/bash
# usage: tools/confirm_seed.sh <seed worktree dir> <name>
# Confirms in the seed's own scratch worktree: (1) with the change the pinned suite builds and passes, (2) the demo fails
# with the change and passes without. Copies patch/demo/notes to /verif/seeded/<name>/ and writes confirm.log there.
wt=$1; name=$2; out=/verif/seeded/$name; mkdir -p $out
cp $wt/SEED/patch.diff $wt/SEED/demo.cpp $out/ 2>/dev/null; cp $wt/SEED/NOTES.md $out/ 2>/dev/null
log=$out/confirm.log; : > $log
cd $wt || exit 1
git checkout -q -- include src 2>/dev/null
echo "== demo WITHOUT the change" >> $log
g++ -std=c++17 -pthread -I $wt/include -o /tmp/demo_$name.orig SEED/demo.cpp >> $log 2>&1 && (/tmp/demo_$name.orig > /tmp/demo_$name.out 2>&1; echo "exit=$?" >> $log; tail -3 /tmp/demo_$name.out >> $log)
git apply SEED/patch.diff >> $log 2>&1 || { echo "PATCH DOES NOT APPLY" >> $log; exit 1; }
echo "== demo WITH the change" >> $log
g++ -std=c++17 -pthread -I $wt/include -o /tmp/demo_$name.mut SEED/demo.cpp >> $log 2>&1 && (timeout 60 /tmp/demo_$name.mut > /tmp/demo_$name.out 2>&1; echo "exit=$?" >> $log; tail -3 /tmp/demo_$name.out >> $log)
echo "== suite WITH the change" >> $log
(cmake -G Ninja -B _b -DCMAKE_BUILD_TYPE=RelWithDebInfo -DYOMM2_ENABLE_TESTS=ON -DCMAKE_CXX_FLAGS=-Wno-error >/dev/null 2>&1 && cmake --build _b -j8 >/dev/null 2>&1 && ctest --test-dir _b -j8 --timeout 900 2>&1 | tail -3) >> $log 2>&1
rm -rf _b /tmp/demo_$name.orig /tmp/demo_$name.mut /tmp/demo_$name.out
echo "== done" >> $log
