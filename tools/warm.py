#!/usr/bin/env python3
"""Pre-build the harness binaries and model drivers the checks use (each check rebuilds when /repo changes)."""
import os, sys
sys.path.insert(0, os.path.dirname(os.path.abspath(__file__)))
import vlib, corelib
b, log = corelib.h1_binary(); print('h1:', b or log[-500:])
m, log = corelib.model_binary(); print('core model:', m or log[-500:])
