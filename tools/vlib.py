#!/usr/bin/env python3
"""Shared machinery for the /verif checks (see DESIGN.md section 7).

A check script does, in this order:
    ctx = vlib.Ctx('C18')                 # tier / seed from env or argv
    proof = vlib.proof_phase(ctx)         # regenerate Gen/, make Properties_C18.vo, Print Assumptions, hygiene
    ... build harness with vlib.build_cpp / vlib.ocaml_driver, run cases, call ctx.violation(...) on failures ...
    vlib.finish(ctx, coverage_extra)      # decides exit status, writes evidence/C18.json
"""
import fcntl, hashlib, json, os, re, shutil, subprocess, sys, time

VERIF = os.path.dirname(os.path.dirname(os.path.abspath(__file__)))
REPO = os.environ.get('VERIF_REPO', '/repo')
BUILD = os.path.join(VERIF, 'build')
COQ = os.path.join(VERIF, 'coq')
GUARD = 'YOMM2_VERIF'
NJOBS = int(os.environ.get('VERIF_JOBS', '16'))

TRUSTED_BASE = [
    'Coq 8.16.1 kernel (incl. vm_compute); no native_compute',
    'Coq extraction (ExtrOcamlBasic only, no Extract Constant) + OCaml 4.13.1 + hand-written OCaml drivers',
    'hand-written C++ harness drivers, Python generators / differ / translators, tools/vlib.py',
    'g++ 12 / clang 14, libstdc++, Boost, sanitizers',
    'the Gallina model is hand-written; it is tied to /repo by differential runs on finite samples and by translated constants',
]


def log(*a):
    print(*a, file=sys.stderr, flush=True)


def run(cmd, timeout=600, cwd=None, env=None, stdin=None):
    """run a command, return (rc, stdout+stderr); rc 124 on timeout"""
    e = dict(os.environ)
    if env:
        e.update(env)
    try:
        p = subprocess.run(cmd, shell=isinstance(cmd, str), cwd=cwd, env=e, input=stdin,
                           stdout=subprocess.PIPE, stderr=subprocess.STDOUT, timeout=timeout,
                           universal_newlines=True, errors='replace')
        return p.returncode, p.stdout
    except subprocess.TimeoutExpired as ex:
        out = ex.stdout or ''
        if isinstance(out, bytes):
            out = out.decode(errors='replace')
        return 124, out + '\n[timeout after %ss]' % timeout


def run2(cmd, timeout=600, cwd=None, env=None, stdin=None):
    """like run but stdout and stderr separate: (rc, out, err)"""
    e = dict(os.environ)
    if env:
        e.update(env)
    try:
        p = subprocess.run(cmd, shell=isinstance(cmd, str), cwd=cwd, env=e, input=stdin,
                           stdout=subprocess.PIPE, stderr=subprocess.PIPE, timeout=timeout,
                           universal_newlines=True, errors='replace')
        return p.returncode, p.stdout, p.stderr
    except subprocess.TimeoutExpired as ex:
        return 124, '', '[timeout after %ss]' % timeout


class Lock:
    def __init__(self, name):
        os.makedirs(BUILD, exist_ok=True)
        self.path = os.path.join(BUILD, name + '.lock')

    def __enter__(self):
        self.f = open(self.path, 'w')
        fcntl.flock(self.f, fcntl.LOCK_EX)
        return self

    def __exit__(self, *a):
        fcntl.flock(self.f, fcntl.LOCK_UN)
        self.f.close()


def tree_hash(paths, extra=''):
    """sha1 over the contents of files under the given paths (files or directories)"""
    h = hashlib.sha1(extra.encode())
    for p in paths:
        if os.path.isdir(p):
            for root, dirs, files in sorted(os.walk(p)):
                dirs.sort()
                for f in sorted(files):
                    fp = os.path.join(root, f)
                    h.update(fp.encode())
                    with open(fp, 'rb') as fh:
                        h.update(fh.read())
        elif os.path.exists(p):
            h.update(p.encode())
            with open(p, 'rb') as fh:
                h.update(fh.read())
    return h.hexdigest()


def repo_hash():
    return tree_hash([os.path.join(REPO, 'include'), os.path.join(REPO, 'src')])


# --------------------------------------------------------------------------- context

class Ctx:
    def __init__(self, pid, argv=None):
        argv = sys.argv[1:] if argv is None else argv
        self.pid = pid
        self.t0 = time.time()
        self.tier = os.environ.get('VERIF_TIER', 'quick')
        self.replay = None
        i = 0
        while i < len(argv):
            if argv[i] == '--tier':
                self.tier = argv[i + 1]; i += 1
            elif argv[i] == '--replay':
                self.replay = argv[i + 1]; i += 1
            i += 1
        if self.tier not in ('quick', 'thorough'):
            self.tier = 'quick'
        try:
            self.seed = int(os.environ.get('VERIF_SEED', '1'))
        except ValueError:
            self.seed = 1
        self.violations = []      # list of (replay_path, summary, nofail)
        self.known_hits = []      # KNOWN-FINDING lines printed
        self.broken = []          # broken proof obligations / correspondences (names)
        self.obligations = []     # theorem names
        self.discharged = []
        self.axioms = {}
        self.assumptions = []
        self.level = 'proof'
        self.notes = []
        self._nrep = 0
        self.findings = load_known_findings()

    @property
    def thorough(self):
        return self.tier == 'thorough'

    def replay_path(self):
        d = os.path.join(VERIF, 'replay')
        os.makedirs(d, exist_ok=True)
        self._nrep += 1
        return os.path.join(d, '%s-%d.json' % (self.pid, self._nrep))

    def violation(self, summary, replay_obj, nofail=False, finding_key=None):
        """Report a violation. finding_key: if it matches a 'finding:' entry of known_findings.txt
        for this property, a KNOWN-FINDING line is printed instead."""
        if finding_key is not None:
            for f in self.findings:
                if f['kind'] == 'finding' and f['property'] == self.pid and f['key'] == finding_key:
                    line = 'KNOWN-FINDING: property=%s %s' % (self.pid, f['text'])
                    if line not in self.known_hits:
                        self.known_hits.append(line)
                        print(line, flush=True)
                    return
        path = self.replay_path()
        obj = {'property': self.pid, 'summary': summary, 'tier': self.tier, 'seed': self.seed}
        obj.update(replay_obj if isinstance(replay_obj, dict) else {'replay': replay_obj})
        if nofail:
            obj['no_failing_input_found'] = True
        with open(path, 'w') as f:
            json.dump(obj, f, indent=1)
        self.violations.append((path, summary, nofail))
        print('VIOLATION property=%s replay=%s%s' % (self.pid, path, ' no-failing-input-found' if nofail else ''), flush=True)
        log('  ' + summary)


def load_known_findings():
    out = []
    p = os.path.join(VERIF, 'known_findings.txt')
    if not os.path.exists(p):
        return out
    for line in open(p):
        line = line.strip()
        if not line or line.startswith('#'):
            continue
        m = re.match(r'(finding|fixed):\s+property=(\S+)\s+(.*)$', line)
        if not m:
            continue
        kind, prop, rest = m.groups()
        key = None
        km = re.match(r'key=(\S+)\s+(.*)$', rest)
        if km:
            key, rest = km.groups()
        out.append({'kind': kind, 'property': prop, 'key': key, 'text': rest})
    return out


# --------------------------------------------------------------------------- Coq

def regen_gen():
    """run every translator: /repo sources -> coq/Gen/*.v (only rewrites a file when its content changes)"""
    tdir = os.path.join(VERIF, 'translators')
    errs = []
    if not os.path.isdir(tdir):
        return errs
    for f in sorted(os.listdir(tdir)):
        if f.endswith('.py') and not f.startswith('_'):
            rc, out = run([sys.executable, os.path.join(tdir, f)], timeout=300, env={'VERIF_REPO': REPO})
            if rc != 0:
                errs.append((f, out[-2000:]))
    return errs


def translator_outputs(f):
    """the Gen files a translator writes (named in its source text)"""
    try:
        return set(re.findall(r'Gen[A-Za-z0-9]*\.v', open(os.path.join(VERIF, 'translators', f)).read()))
    except OSError:
        return set()


def gen_deps(module):
    """Gen/*.v files that Properties/<module>.vo depends on, transitively (from coq_makefile's dependency file);
    None when the dependency file cannot be read (then every translator is considered relevant)"""
    try:
        txt = open(os.path.join(COQ, '.Makefile.d')).read()
    except OSError:
        return None
    deps = {}
    for line in txt.split('\n'):
        if ':' not in line:
            continue
        lhs, rhs = line.split(':', 1)
        for t in lhs.split():
            if t.endswith('.vo'):
                deps.setdefault(t, set()).update(x for x in rhs.split() if x.endswith(('.vo', '.v')))
    start = 'Properties/%s.vo' % module
    if start not in deps:
        return None
    seen = set(); todo = [start]; gens = set()
    while todo:
        t = todo.pop()
        if t in seen:
            continue
        seen.add(t)
        for d in deps.get(t, ()):
            if d.startswith('Gen/'):
                gens.add(os.path.basename(d).replace('.vo', '.v'))
            if d.endswith('.vo'):
                todo.append(d)
    return gens


def write_if_changed(path, text):
    os.makedirs(os.path.dirname(path), exist_ok=True)
    if os.path.exists(path) and open(path).read() == text:
        return False
    with open(path, 'w') as f:
        f.write(text)
    return True


def coq_project():
    """(re)generate _CoqProject and the Makefile from the .v files present"""
    vs = []
    for root, dirs, files in os.walk(COQ):
        dirs.sort()
        for f in sorted(files):
            if f.endswith('.v') and not f.startswith('.'):
                vs.append(os.path.relpath(os.path.join(root, f), COQ))
    vs.sort()
    text = '-Q . Y2\n-arg -w -arg -notation-overridden,-deprecated-hint-without-locality,-deprecated-instance-without-locality\n' + '\n'.join(vs) + '\n'
    changed = write_if_changed(os.path.join(COQ, '_CoqProject'), text)
    if changed or not os.path.exists(os.path.join(COQ, 'Makefile')):
        rc, out = run('coq_makefile -f _CoqProject -o Makefile', cwd=COQ)
        if rc != 0:
            raise RuntimeError('coq_makefile failed: ' + out)


def coq_make(targets, timeout=1500, locked=False):
    """make -k the given .vo targets (paths relative to coq/); returns (ok, failed_files, log)"""
    if locked:
        coq_project()
        rc, out = run(['make', '-k', '-j%d' % NJOBS] + targets, cwd=COQ, timeout=timeout)
    else:
        with Lock('coq'):
            coq_project()
            rc, out = run(['make', '-k', '-j%d' % NJOBS] + targets, cwd=COQ, timeout=timeout)
    failed = []
    for m in re.finditer(r'File "\./([^"]+)", line (\d+), characters [^\n]*\nError:?\s*([^\n]*(?:\n(?!File|make|COQC)[^\n]*){0,6})', out):
        failed.append({'file': m.group(1), 'line': int(m.group(2)), 'error': m.group(3).strip()[:600]})
    for m in re.finditer(r'make[^\n]*\*\*\* \[[^\]]*?([\w/]+\.vo)\] Error', out):
        if not any(f['file'].replace('.v', '.vo') == m.group(1) for f in failed):
            failed.append({'file': m.group(1), 'line': 0, 'error': 'make: target failed'})
    if rc == 124:
        failed.append({'file': ' '.join(targets), 'line': 0, 'error': 'timeout'})
    return (rc == 0), failed, out


def theorem_names(vfile):
    names = []
    for line in open(vfile):
        m = re.match(r'\s*(Theorem|Corollary)\s+([A-Za-z0-9_\']+)', line)
        if m:
            names.append(m.group(2))
    return names


def coq_assumptions(module, names):
    """coqc a scratch file printing the assumptions of every named theorem of the given module.
    returns dict name -> 'closed' | [axiom lines] | None (theorem missing / module not compiled)"""
    if not names:
        return {}
    d = os.path.join(BUILD, 'assume')
    os.makedirs(d, exist_ok=True)
    stem = 'A_' + module.replace('.', '_') + '_%d' % os.getpid()
    src = 'Require Y2.%s.\n' % module
    for n in names:
        src += 'Goal True. idtac "@@BEGIN %s". Abort.\nPrint Assumptions Y2.%s.%s.\nGoal True. idtac "@@END %s". Abort.\n' % (n, module, n, n)
    res = {}
    p = os.path.join(d, stem + '.v')
    open(p, 'w').write(src)
    rc, out = run(['coqc', '-Q', COQ, 'Y2', p], timeout=600, cwd=d)
    for f in os.listdir(d):
        if f.startswith(stem) or f.startswith('.' + stem):
            try:
                os.remove(os.path.join(d, f))
            except OSError:
                pass
    if rc != 0:
        # find which ones fail: bisect one by one
        if len(names) == 1:
            return {names[0]: None}
        for n in names:
            res.update(coq_assumptions(module, [n]))
        return res
    for n in names:
        m = re.search(r'@@BEGIN %s\n(.*?)@@END %s' % (re.escape(n), re.escape(n)), out, re.S)
        if not m:
            res[n] = None
            continue
        body = m.group(1).strip()
        if 'Closed under the global context' in body:
            res[n] = 'closed'
        else:
            res[n] = [l.strip() for l in re.split(r'\n(?=\S)', body) if l.strip() and not l.startswith('Axioms:')]
    return res


HYGIENE_RE = re.compile(r'\b(Admitted|admit|Axiom|Axioms|Parameter|Parameters|Conjecture|Unset\s+Guard|bypass_check|Admit\s+Obligations|type-in-type|impredicative-set|Unset\s+Universe\s+Checking|Unset\s+Positivity)\b')


def strip_coq_comments(s):
    out = []
    depth = 0
    i = 0
    while i < len(s):
        if s.startswith('(*', i):
            depth += 1; i += 2
        elif s.startswith('*)', i) and depth > 0:
            depth -= 1; i += 2
        else:
            if depth == 0:
                out.append(s[i])
            elif s[i] == '\n':
                out.append('\n')
            i += 1
    return ''.join(out)


def hygiene():
    """forbidden vernacular anywhere in the development (comments and strings ignored)"""
    bad = []
    for root, dirs, files in os.walk(COQ):
        for f in files:
            if f.endswith('.v'):
                p = os.path.join(root, f)
                txt = strip_coq_comments(open(p).read())
                txt = re.sub(r'"[^"\n]*"', '""', txt)
                for n, line in enumerate(txt.split('\n'), 1):
                    if HYGIENE_RE.search(line):
                        bad.append('%s:%d: %s' % (os.path.relpath(p, VERIF), n, line.strip()[:120]))
    return bad


ALLOWED_AXIOM_RE = re.compile(r'(functional_extensionality|proof_irrelevance|classic|JMeq_eq|eq_rect_eq|propositional_extensionality|constructive_(in)?definite_description|ClassicalDedekindReals|sig_forall_dec|sig_not_dec|PrimInt63|PrimFloat|Uint63|prim)', re.I)


def proof_phase(ctx, module=None, extra_targets=()):
    """Regenerate Gen/, build Properties/<module>.vo (+ Extract), print assumptions, run hygiene.
    Fills ctx.obligations / discharged / axioms / broken. Returns True when every obligation checks."""
    module = module or 'Properties_' + ctx.pid
    vfile = os.path.join(COQ, 'Properties', module + '.v')
    # one lock across translators + make + assumptions: coq/Gen is shared by every check, and a concurrently running check
    # (possibly with another VERIF_REPO) must not regenerate it in the middle of this proof phase
    with Lock('coq'):
        errs = regen_gen()
        targets = ['Properties/%s.vo' % module] + list(extra_targets)
        ok, failed, out = coq_make(targets, locked=True)
        # a translator that can no longer read the source is a broken obligation only for the properties whose theorems
        # depend on the file it generates
        relevant = gen_deps(module)
        for f, tout in errs:
            outs = translator_outputs(f)
            if relevant is None or not outs or (outs & relevant):
                ctx.broken.append('translator %s failed: %s' % (f, tout.strip().split('\n')[-1][:200]))
            else:
                ctx.notes.append('translator %s failed but %s does not depend on %s' % (f, module, sorted(outs)))
        ctx.make_log_tail = out[-3000:]
        names = theorem_names(vfile) if os.path.exists(vfile) else []
        ctx.obligations = names
        if not names:
            ctx.broken.append('no theorem found in Properties/%s.v' % module)
        for f in failed:
            ctx.broken.append('coq: %s:%s %s' % (f['file'], f['line'], f['error'].replace('\n', ' ')[:300]))
        if os.path.exists(os.path.join(COQ, 'Properties', module + '.vo')) and not any(('Properties/' + module) in b for b in ctx.broken):
            ass = coq_assumptions('Properties.' + module, names)
        else:
            ass = {n: None for n in names}
    for n in names:
        a = ass.get(n)
        if a is None:
            if not any(n in b for b in ctx.broken):
                ctx.broken.append('theorem %s does not check' % n)
        else:
            ctx.axioms[n] = a
            if a == 'closed' or all(ALLOWED_AXIOM_RE.search(x) for x in a):
                ctx.discharged.append(n)
            else:
                ctx.broken.append('theorem %s depends on non-standard axioms: %s' % (n, '; '.join(a)[:300]))
    bad = hygiene()
    for b in bad:
        ctx.broken.append('hygiene: ' + b)
    if ctx.thorough and not ctx.broken and not os.environ.get('VERIF_NO_COQCHK'):
        # independent re-check of the compiled files with coqchk (thorough tier only: about a minute, several GB)
        rc, out = run(['coqchk', '-silent', '-o', '-Q', COQ, 'Y2', 'Y2.Properties.' + module], timeout=1800, cwd=COQ)
        m = re.search(r'\* Axioms:(.*?)\n\s*\n\* Constants/Inductives relying on type-in-type:(.*?)\n\s*\n\* Constants/Inductives relying on unsafe \(co\)fixpoints:(.*?)\n\s*\n\* Inductives whose positivity is assumed:(.*?)\n', out + '\n\n', re.S)
        ctx.coqchk = {'rc': rc, 'axioms': m.group(1).strip() if m else out[-500:], 'type_in_type': m.group(2).strip() if m else '?',
                      'unsafe_fixpoints': m.group(3).strip() if m else '?', 'assumed_positivity': m.group(4).strip() if m else '?'}
        if rc != 0:
            ctx.broken.append('coqchk rejects Properties.%s: %s' % (module, out[-300:].replace('\n', ' ')))
        elif m and any(x.strip() != '<none>' for x in m.groups()[1:]):
            ctx.broken.append('coqchk reports disabled checks: ' + ' | '.join(x.strip() for x in m.groups()[1:]))
    return not ctx.broken


def proof_phase_extra(ctx, module):
    """a further Properties module of the same property (e.g. theorems over translated source): its obligations,
    discharged theorems, axioms and broken obligations are added to ctx"""
    ctx2 = Ctx(ctx.pid, argv=[]); ctx2.tier = ctx.tier; ctx2.seed = ctx.seed
    proof_phase(ctx2, module=module)
    ctx.obligations += ctx2.obligations; ctx.discharged += ctx2.discharged; ctx.axioms.update(ctx2.axioms)
    ctx.broken += [b for b in ctx2.broken if b not in ctx.broken]
    ctx.notes += ctx2.notes
    return not ctx2.broken


# --------------------------------------------------------------------------- builds

def replay_program(obj):
    """replay of a violation found by a self-checking program (checks/*_glue.py, C11_conv.py): rebuild the recorded source
    against the current /repo with the recorded flags and run it. True when the replay object was of that kind."""
    rep = obj.get('replay') if isinstance(obj.get('replay'), dict) else obj
    src = rep.get('source')
    if not src or 'flags' not in rep:
        return False
    if not os.path.exists(src):
        print('the recorded program %s is no longer in the cache; rerun the check to regenerate it' % src); return True
    binp = os.path.join(cache_dir('replay-prog'), 'prog')
    rc, out = run(['g++', '-std=c++17', '-g', '-fsanitize=address,undefined', '-fno-sanitize-recover=all', '-pthread', '-I', os.path.join(REPO, 'include')]
                  + list(rep['flags']) + ['-o', binp, src], timeout=900)
    if rc != 0:
        print('the program does not compile against %s:\n%s' % (REPO, out[-1500:])); return True
    p = subprocess.run([binp] + list(rep.get('args', [])), capture_output=True, text=True, timeout=300, env=dict(os.environ, ASAN_OPTIONS='detect_leaks=0'))
    print('--- program %s (flags %s) %s, exit %d' % (src, ' '.join(rep['flags']), ' '.join(rep.get('args', [])), p.returncode))
    print(p.stdout[-4000:]); print(p.stderr[-2000:])
    return True


def cache_dir(key):
    d = os.path.join(BUILD, 'cache', key)
    os.makedirs(d, exist_ok=True)
    return d


def build_cpp(name, sources, flags=None, compiler='g++', extra_key='', std='c++17', timeout=900, objs_parallel=True):
    """Compile harness sources against /repo/include *as it is now* with the hooks on.
    Cached by the hash of /repo/include + sources + flags. Returns (binary_path or None, log)."""
    flags = flags if flags is not None else ['-O1', '-g', '-fsanitize=address,undefined', '-fno-sanitize-recover=all']
    srcs = [s if os.path.isabs(s) else os.path.join(VERIF, s) for s in sources]
    hdrs = []
    for s in srcs:
        d = os.path.dirname(s)
        hdrs += [os.path.join(d, f) for f in sorted(os.listdir(d)) if f.endswith(('.hpp', '.h', '.inc'))]
    key = tree_hash([os.path.join(REPO, 'include')] + srcs + sorted(set(hdrs)), extra=' '.join(flags) + compiler + std + extra_key)[:20]
    d = cache_dir(name + '-' + key)
    binp = os.path.join(d, name)
    with Lock('cpp-' + name):
        if os.path.exists(binp):
            return binp, 'cached'
        base = [compiler, '-std=' + std, '-D' + GUARD, '-I', os.path.join(REPO, 'include'), '-Wno-deprecated-declarations'] + flags
        logs = []
        objs = []
        procs = []
        for s in srcs:
            o = os.path.join(d, os.path.basename(s) + '.o')
            objs.append(o)
            cmd = base + ['-c', s, '-o', o]
            procs.append((s, subprocess.Popen(cmd, stdout=subprocess.PIPE, stderr=subprocess.STDOUT, universal_newlines=True)))
            if not objs_parallel:
                procs[-1][1].wait()
        okall = True
        t0 = time.time()
        for s, p in procs:
            try:
                out, _ = p.communicate(timeout=max(1, timeout - (time.time() - t0)))
            except subprocess.TimeoutExpired:
                p.kill(); out = 'timeout'
            if p.returncode != 0:
                okall = False
                logs.append('== %s\n%s' % (s, out[-4000:]))
        if not okall:
            shutil.rmtree(d, ignore_errors=True)
            return None, '\n'.join(logs)
        rc, out = run(base + objs + ['-o', binp + '.tmp'], timeout=300)
        if rc != 0:
            shutil.rmtree(d, ignore_errors=True)
            return None, out[-4000:]
        os.rename(binp + '.tmp', binp)
        for o in objs:
            try:
                os.remove(o)
            except OSError:
                pass
        prune_cache(name, keep=d)
        return binp, 'built'


def prune_cache(name, keep):
    """keep disk use bounded: drop older cache entries of the same binary"""
    root = os.path.join(BUILD, 'cache')
    ents = [os.path.join(root, e) for e in os.listdir(root) if e.startswith(name + '-')]
    ents = [e for e in ents if e != keep]
    ents.sort(key=lambda e: os.path.getmtime(e))
    now = time.time()
    for e in ents[:-3]:
        # never remove a directory another process may still be building in
        if now - os.path.getmtime(e) > 3600:
            shutil.rmtree(e, ignore_errors=True)


def ocaml_driver(name, extract_target, ml_sources, timeout=600):
    """Build an OCaml driver from the extracted model.
    extract_target: coq/Extract/<X>.vo whose compilation writes build/extract/<x>.ml[i]
    ml_sources: hand-written driver files (relative to /verif). Returns (path or None, log)."""
    ok, failed, out = coq_make([extract_target])
    if not ok:
        return None, out[-3000:]
    exd = os.path.join(BUILD, 'extract')
    stem = os.path.basename(extract_target).replace('.vo', '')
    gen = [os.path.join(exd, f) for f in sorted(os.listdir(exd)) if f.startswith(stem.lower()) and f.endswith(('.ml', '.mli'))] if os.path.isdir(exd) else []
    srcs = [os.path.join(VERIF, s) for s in ml_sources]
    key = tree_hash(gen + srcs)[:20]
    d = cache_dir(name + '-' + key)
    binp = os.path.join(d, name)
    with Lock('ml-' + name):
        if os.path.exists(binp):
            return binp, 'cached'
        for g in gen + srcs:
            shutil.copy(g, d)
        mli = [os.path.basename(g) for g in gen if g.endswith('.mli')]
        ml = [os.path.basename(g) for g in gen if g.endswith('.ml')]
        cmd = ['ocamlfind', 'ocamlopt', '-O3', '-w', '-a', '-package', 'str,unix', '-linkpkg'] + mli + ml + [os.path.basename(s) for s in srcs] + ['-o', name + '.tmp']
        rc, out = run(cmd, cwd=d, timeout=timeout)
        if rc != 0:
            cmd.remove('-O3')
            rc, out = run(cmd, cwd=d, timeout=timeout)
        if rc != 0:
            shutil.rmtree(d, ignore_errors=True)
            return None, out[-4000:]
        os.rename(binp + '.tmp', binp)
        prune_cache(name, keep=d)
        return binp, 'built'


# --------------------------------------------------------------------------- finish

def finish(ctx, coverage=None, assumptions=None, explanation=None):
    """Apply the decision rule of DESIGN.md section 7, write the evidence file, exit."""
    coverage = dict(coverage or {})
    # a broken obligation / correspondence with no concrete failing input is still a violation
    if ctx.broken and not any(not nf for (_, _, nf) in ctx.violations):
        ctx.violation('proof obligation or correspondence no longer checks: ' + ' | '.join(ctx.broken)[:1500],
                      {'broken': ctx.broken, 'make_log_tail': getattr(ctx, 'make_log_tail', '')[-1500:]}, nofail=True)
    elif ctx.broken:
        log('broken obligations (a failing input was found and reported): ' + ' | '.join(ctx.broken)[:800])
    cov = {
        'obligations': len(ctx.obligations),
        'discharged': len(ctx.discharged),
        'checker_cmd': 'make -C coq Properties/Properties_%s.vo (coqc 8.16.1, full .vo build) + Print Assumptions per theorem' % ctx.pid,
        'trusted_base': TRUSTED_BASE,
        'theorems': ctx.obligations,
        'axioms': {k: v for k, v in ctx.axioms.items()},
        'broken': ctx.broken,
        'known_findings_printed': ctx.known_hits,
        'repo_hash': repo_hash(),
    }
    if getattr(ctx, 'coqchk', None):
        cov['coqchk'] = ctx.coqchk
    if explanation:
        cov['explanation'] = explanation
    cov.update(coverage)
    level = claimed_level(ctx.pid) or ctx.level
    if level == 'proof' and (cov['obligations'] < 1 or cov['discharged'] < 1):
        # cannot honestly claim proof on this run
        level = 'other'
        cov.setdefault('explanation', 'no proof obligation was discharged on this run; see broken')
    if level == 'other':
        cov.setdefault('explanation', 'see MANIFEST level_note')
    if 'evaluations' in cov:
        cov['evaluations'] = max(int(cov['evaluations']), 0)
    ev = {
        'property_id': ctx.pid,
        'tier': ctx.tier,
        'seed': ctx.seed,
        'level': level,
        'coverage': cov,
        'assumptions': (assumptions or []) + ctx.assumptions,
        'wall_s': round(time.time() - ctx.t0, 2),
        'violations': len(ctx.violations),
    }
    # evidence/ holds what the checks found on /repo itself; a run against a scratch copy (tools/run_seed.sh) writes elsewhere
    evdir = os.environ.get('VERIF_EVIDENCE_DIR') or os.path.join(VERIF, 'evidence')
    os.makedirs(evdir, exist_ok=True)
    with open(os.path.join(evdir, ctx.pid + '.json'), 'w') as f:
        json.dump(ev, f, indent=1, sort_keys=True)
    if ctx.violations:
        log('%s: %d violation(s)' % (ctx.pid, len(ctx.violations)))
        sys.exit(1)
    log('%s: ok (%d/%d obligations, %.1fs)' % (ctx.pid, len(ctx.discharged), len(ctx.obligations), time.time() - ctx.t0))
    sys.exit(0)


def claimed_level(pid):
    """the level category claimed for this property in tools/claims.json (MANIFEST.json is generated from it)"""
    try:
        for c in json.load(open(os.path.join(VERIF, 'tools', 'claims.json'))):
            if c['id'] == pid:
                return c['category']
    except Exception:
        pass
    return None


class Rng:
    """xorshift64* : every random choice of a check derives from VERIF_SEED through this"""
    def __init__(self, seed):
        self.s = (seed * 0x9E3779B97F4A7C15 + 0x1234567) & 0xFFFFFFFFFFFFFFFF or 1

    def next(self):
        x = self.s
        x ^= (x >> 12); x ^= (x << 25) & 0xFFFFFFFFFFFFFFFF; x ^= (x >> 27)
        self.s = x
        return (x * 0x2545F4914F6CDD1D) & 0xFFFFFFFFFFFFFFFF

    def below(self, n):
        return self.next() % n if n > 0 else 0

    def range(self, a, b):
        return a + self.below(b - a + 1)

    def chance(self, num, den):
        return self.below(den) < num

    def choice(self, l):
        return l[self.below(len(l))]

    def shuffle(self, l):
        for i in range(len(l) - 1, 0, -1):
            j = self.below(i + 1)
            l[i], l[j] = l[j], l[i]
        return l

    def sample(self, l, k):
        l = list(l)
        self.shuffle(l)
        return l[:k]
